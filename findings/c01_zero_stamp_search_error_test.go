package index_test

// Demonstration for the C10/C04 finding "zeroStamp ignores a failed index search" (copy into
// /repo/cesium/internal/index and run `go test -vet=off -run TestVerifZeroStampSearchError ./internal/index/`).
// The first read of the index data fails (an I/O error); every later read succeeds. Without the
// fix Stamp(15s, 0) returns the exact timestamp 1s and no error; with it the error is returned.

import (
	"context"
	"errors"
	"sync/atomic"
	"testing"

	"github.com/synnaxlabs/cesium/internal/domain"
	"github.com/synnaxlabs/cesium/internal/index"
	xfs "github.com/synnaxlabs/x/io/fs"
	"github.com/synnaxlabs/x/telem"
)

var errVerifRead = errors.New("verif: injected read failure")

type verifFailFS struct {
	xfs.FS
	armed *atomic.Bool
}

func (f verifFailFS) Open(name string, flag int) (xfs.File, error) {
	file, err := f.FS.Open(name, flag)
	if err != nil {
		return nil, err
	}
	return verifFailFile{File: file, armed: f.armed}, nil
}

func (f verifFailFS) Sub(name string) (xfs.FS, error) {
	s, err := f.FS.Sub(name)
	if err != nil {
		return nil, err
	}
	return verifFailFS{FS: s, armed: f.armed}, nil
}

type verifFailFile struct {
	xfs.File
	armed *atomic.Bool
}

func (f verifFailFile) ReadAt(p []byte, off int64) (int, error) {
	if f.armed.CompareAndSwap(true, false) {
		return 0, errVerifRead
	}
	return f.File.ReadAt(p, off)
}

func TestVerifZeroStampSearchError(t *testing.T) {
	ctx := context.Background()
	armed := &atomic.Bool{}
	db, err := domain.Open(domain.Config{FS: verifFailFS{FS: xfs.NewMem(), armed: armed}})
	if err != nil {
		t.Fatal(err)
	}
	defer func() { _ = db.Close() }()
	if err = domain.Write(ctx, db, (1 * telem.SecondTS).Range(20*telem.SecondTS+1),
		telem.NewSeriesSecondsTSV(1, 2, 3, 5, 7, 9, 15, 19, 20).Data); err != nil {
		t.Fatal(err)
	}
	idx := &index.Domain{DB: db}
	approx, err := idx.Stamp(ctx, 15*telem.SecondTS, 0, true)
	if err != nil || !approx.Exact() || approx.Lower != 15*telem.SecondTS {
		t.Fatalf("sanity: Stamp(15s, 0) = %v, %v", approx, err)
	}
	armed.Store(true) // the next read of the index data fails once
	approx, err = idx.Stamp(ctx, 15*telem.SecondTS, 0, true)
	if err == nil {
		t.Fatalf("the index search failed with an I/O error, yet Stamp(15s, 0) returned %v (exact=%v) and no error", approx, approx.Exact())
	}
}
