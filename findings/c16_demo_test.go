package ontology_test

// Demonstrations for the two C16 defects found by the atcall / DefineRelationship
// obligations. Run with:
//   cd /repo/core && go test -overlay <overlay mapping this file into pkg/distribution/ontology> -run 'TestVerifC16' ./pkg/distribution/ontology/
import (
	"context"
	"errors"
	"testing"

	"github.com/synnaxlabs/synnax/pkg/distribution/ontology"
	"github.com/synnaxlabs/x/gorp"
	"github.com/synnaxlabs/x/graph"
	"github.com/synnaxlabs/x/kv/memkv"
)

func verifOpen(t *testing.T) (*ontology.Ontology, *gorp.DB) {
	db := gorp.Wrap(memkv.New())
	otg, err := ontology.Open(context.Background(), ontology.Config{DB: db})
	if err != nil {
		t.Fatal(err)
	}
	otg.RegisterService(&sampleService{})
	return otg, db
}

// sample:1 has no outgoing edges, sample:10 -> sample:b. Defining b -> 1 closes no cycle,
// but the descendant walk of "sample:1" uses the key prefix "sample:1", which also matches
// the edges of "sample:10", so b is found among 1's "descendants" and the edge is refused.
func TestVerifC16PrefixWithoutSeparator(t *testing.T) {
	otg, db := verifOpen(t)
	ctx := context.Background()
	tx := db.OpenTx()
	defer tx.Close()
	w := otg.NewWriter(tx)
	one, ten, b := newSampleType("1"), newSampleType("10"), newSampleType("b")
	for _, id := range []ontology.ID{one, ten, b} {
		if err := w.DefineResource(ctx, id); err != nil {
			t.Fatal(err)
		}
	}
	if err := w.DefineRelationship(ctx, ten, ontology.RelationshipTypeParentOf, b); err != nil {
		t.Fatal(err)
	}
	if err := w.DefineRelationship(ctx, b, ontology.RelationshipTypeParentOf, one); err != nil {
		t.Fatalf("edge b->1 closes no cycle but was refused: %v", err)
	}
}

// a -> a is a cycle of length one; the property says a relationship is defined exactly when
// it closes no cycle.
func TestVerifC16SelfLoop(t *testing.T) {
	otg, db := verifOpen(t)
	ctx := context.Background()
	tx := db.OpenTx()
	defer tx.Close()
	w := otg.NewWriter(tx)
	a := newSampleType("a")
	if err := w.DefineResource(ctx, a); err != nil {
		t.Fatal(err)
	}
	err := w.DefineRelationship(ctx, a, ontology.RelationshipTypeParentOf, a)
	if !errors.Is(err, graph.ErrCyclicDependency) {
		t.Fatalf("self loop a->a accepted (err=%v): the graph now has a cycle", err)
	}
}
