package domain_test

// Demonstration for the C09 finding fixed by "fix: acquireWriter returned with the writer pool
// read-locked" (copy into /repo/cesium/internal/domain and run
// `go test -vet=off -run TestVerifC09AcquireWriterLockLeak ./internal/domain/`).

import (
	"context"
	"testing"
	"time"

	"github.com/synnaxlabs/cesium/internal/domain"
	xfs "github.com/synnaxlabs/x/io/fs"
	"github.com/synnaxlabs/x/telem"
)

// When Stat fails for a pooled data file, acquireWriter returned while still holding the writer
// pool's read lock. Every later exclusive acquisition of that lock - garbage collection, or a
// writer that needs a new file - blocks forever.
func TestVerifC09AcquireWriterLockLeak(t *testing.T) {
	ctx := context.Background()
	mem := xfs.NewMem()
	db, err := domain.Open(domain.Config{FS: mem, FileSize: 1 * telem.Megabyte})
	if err != nil {
		t.Fatal(err)
	}
	if err = domain.Write(ctx, db, (10 * telem.SecondTS).Range(20*telem.SecondTS), []byte{1, 2, 3}); err != nil {
		t.Fatal(err)
	}
	// the data file disappears underneath the pooled writer (disk fault, operator error)
	if err = mem.Remove("1.domain"); err != nil {
		t.Fatal(err)
	}
	if _, err = db.OpenWriter(ctx, domain.WriterConfig{Start: 30 * telem.SecondTS}); err == nil {
		t.Fatal("expected opening a writer to fail after its data file was removed")
	}
	done := make(chan error, 1)
	go func() { done <- db.GarbageCollect(ctx) }()
	select {
	case <-done: // GarbageCollect may well fail (the file is gone); it must not hang
	case <-time.After(3 * time.Second):
		t.Fatal("GarbageCollect never returns: the failed OpenWriter left the writer pool read-locked")
	}
}
