package channel_test

// Demonstration for the C15 finding "a create batch with the overwrite option that fails has already
// removed the overwritten channel from the engine" (copy into /repo/core/pkg/distribution/channel
// and run `go test -vet=off -run TestVerifC15FailedOverwrite ./pkg/distribution/channel/`).
//
// verif_x exists. A batch replaces it (same name, another data type, overwrite option) and also
// asks for a data channel with a dangling index, inside a transaction. The batch fails and the
// transaction is rolled back, so the metadata still lists the old verif_x - but deleteOverwritten had
// removed it from the time-series engine (for a persisted channel: with its data) before the new
// channels were created.

import (
	"context"
	"testing"

	"github.com/onsi/gomega"
	"github.com/synnaxlabs/synnax/pkg/distribution/channel"
	"github.com/synnaxlabs/synnax/pkg/distribution/mock"
	"github.com/synnaxlabs/x/gorp"
	"github.com/synnaxlabs/x/telem"
)

func TestVerifC15FailedOverwrite(t *testing.T) {
	gomega.RegisterTestingT(t)
	ctx := context.Background()
	cl := mock.ProvisionCluster(ctx, 1)
	defer func() { _ = cl.Close() }()
	n := cl.Nodes[1]
	old := channel.Channel{Name: "verif_x", DataType: telem.Float64T, Virtual: true, Leaseholder: 1}
	if err := n.Channel.NewWriter(nil).Create(ctx, &old); err != nil {
		t.Fatal(err)
	}
	batch := []channel.Channel{
		{Name: "verif_x", DataType: telem.Float32T, Virtual: true, Leaseholder: 1},          // replaces verif_x
		{Name: "verif_y", DataType: telem.Float32T, LocalIndex: 4242, Leaseholder: 1}, // dangling index: the batch fails
	}
	err := n.DB.WithTx(ctx, func(tx gorp.Tx) error {
		return n.Channel.NewWriter(tx).CreateMany(ctx, &batch, channel.OverwriteIfNameExistsAndDifferentProperties())
	})
	t.Logf("create err=%v", err)
	var meta []channel.Channel
	_ = n.Channel.NewRetrieve().Entries(&meta).Where(channel.MatchKeys(old.Key())).Exec(ctx, nil)
	_, tErr := n.Storage.TS.RetrieveChannel(ctx, old.Key().StorageKey())
	t.Logf("old verif_x: in metadata=%v, in engine=%v", len(meta) == 1, tErr == nil)
	if (len(meta) == 1) != (tErr == nil) {
		t.Errorf("metadata and engine disagree about the channel that was to be overwritten")
	}
}
