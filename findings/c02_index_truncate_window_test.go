package domain_test

// Demonstration for the C02 known finding (copy into /repo/cesium/internal/domain and run
// `go test -vet=off -run TestVerifC02IndexTruncateWindow ./internal/domain/`).

import (
	"bytes"
	"context"
	"errors"
	"sync"
	"testing"

	"github.com/synnaxlabs/cesium/internal/domain"
	xfs "github.com/synnaxlabs/x/io/fs"
	"github.com/synnaxlabs/x/telem"
)

// ---------------------------------------------------------------------------
// A minimal "process crash" file system: it forwards everything to an in-memory
// FS until a chosen mutating call is reached. From that call on (inclusive), no
// mutation reaches the underlying FS any more, i.e. the underlying MemFS is
// exactly the image a process crash at that instant would leave behind
// (completed calls survive, the crashing call and everything after it do not).
// ---------------------------------------------------------------------------

var errVerifC02Crashed = errors.New("verif C02: simulated process crash")

type verifC02Crash struct {
	mu      sync.Mutex
	crashed bool
	// crashBefore decides, for every mutating call, whether the process dies
	// right before the call is executed.
	crashBefore func(op, name string) bool
}

func (c *verifC02Crash) gate(op, name string) error {
	c.mu.Lock()
	defer c.mu.Unlock()
	if c.crashed {
		return errVerifC02Crashed
	}
	if c.crashBefore != nil && c.crashBefore(op, name) {
		c.crashed = true
		return errVerifC02Crashed
	}
	return nil
}

type verifC02FS struct {
	xfs.FS
	c *verifC02Crash
}

func (f *verifC02FS) Open(name string, flag int) (xfs.File, error) {
	if err := f.c.gate("open", name); err != nil {
		return nil, err
	}
	file, err := f.FS.Open(name, flag)
	if err != nil {
		return nil, err
	}
	return &verifC02File{File: file, name: name, c: f.c}, nil
}

func (f *verifC02FS) Rename(a, b string) error {
	if err := f.c.gate("rename", a); err != nil {
		return err
	}
	return f.FS.Rename(a, b)
}

func (f *verifC02FS) Remove(name string) error {
	if err := f.c.gate("remove", name); err != nil {
		return err
	}
	return f.FS.Remove(name)
}

type verifC02File struct {
	xfs.File
	name string
	c    *verifC02Crash
}

func (f *verifC02File) Write(p []byte) (int, error) {
	if err := f.c.gate("write", f.name); err != nil {
		return 0, err
	}
	return f.File.Write(p)
}

func (f *verifC02File) WriteAt(p []byte, off int64) (int, error) {
	if err := f.c.gate("write_at", f.name); err != nil {
		return 0, err
	}
	return f.File.WriteAt(p, off)
}

func (f *verifC02File) Truncate(size int64) error {
	if err := f.c.gate("truncate", f.name); err != nil {
		return err
	}
	return f.File.Truncate(size)
}

type verifC02Domain struct {
	tr   telem.TimeRange
	data []byte
}

func verifC02ReadAll(t *testing.T, ctx context.Context, db *domain.DB) []verifC02Domain {
	t.Helper()
	var out []verifC02Domain
	it := db.OpenIterator(domain.IterRange(telem.TimeRangeMax))
	for ok := it.SeekFirst(ctx); ok; ok = it.Next() {
		r, err := it.OpenReader(ctx)
		if err != nil {
			t.Fatalf("open reader on domain %v: %v", it.TimeRange(), err)
		}
		buf := make([]byte, it.Size())
		if len(buf) > 0 {
			if _, err = r.ReadAt(buf, 0); err != nil {
				t.Fatalf("read domain %v: %v", it.TimeRange(), err)
			}
		}
		if err = r.Close(); err != nil {
			t.Fatal(err)
		}
		out = append(out, verifC02Domain{tr: it.TimeRange(), data: buf})
	}
	if err := it.Close(); err != nil {
		t.Fatal(err)
	}
	return out
}

// TestVerifC02IndexTruncateWindow: domain A is written, committed and its writer closed (index
// persisted). A second domain B is then committed with per-commit index persistence and the
// process dies inside that persist, after Truncate grew index.domain from one record to two and
// before WriteAt filled the second record. The obligation
// indexPersist.prepare#assert:3 says that at this point every record beyond the old end of the file
// must already hold its new pointer; instead the record is zero-filled, so after reopening the
// index lists a second, fabricated domain [0,0) in file 0 ahead of... and reading fails.
func TestVerifC02IndexTruncateWindow(t *testing.T) {
	ctx := context.Background()
	mem := xfs.NewMem()
	crash := &verifC02Crash{}
	db, err := domain.Open(domain.Config{
		FS:       &verifC02FS{FS: mem, c: crash},
		FileSize: 1 * telem.Megabyte,
	})
	if err != nil {
		t.Fatal(err)
	}
	var (
		trA   = (10 * telem.SecondTS).Range(20 * telem.SecondTS)
		dataA = []byte{10, 11, 12, 13, 14, 15, 16, 17, 18, 19}
	)
	if err = domain.Write(ctx, db, trA, dataA); err != nil {
		t.Fatal(err)
	}
	w, err := db.OpenWriter(ctx, domain.WriterConfig{
		Start:                    30 * telem.SecondTS,
		AutoIndexPersistInterval: domain.AlwaysIndexPersistOnAutoCommit,
	})
	if err != nil {
		t.Fatal(err)
	}
	sawTruncate := false
	crash.mu.Lock()
	crash.crashBefore = func(op, name string) bool {
		if name != "index.domain" {
			return false
		}
		if op == "truncate" {
			sawTruncate = true
			return false
		}
		return op == "write_at" && sawTruncate
	}
	crash.mu.Unlock()
	if _, err = w.Write([]byte{30, 31, 32, 33, 34}); err != nil {
		t.Fatal(err)
	}
	err = w.Commit(ctx, 35*telem.SecondTS)
	if !errors.Is(err, errVerifC02Crashed) {
		t.Fatalf("expected the simulated crash to hit the first commit of B, got %v", err)
	}
	_ = w.Close()
	_ = db.Close()

	db2, err := domain.Open(domain.Config{FS: mem, FileSize: 1 * telem.Megabyte})
	if err != nil {
		t.Fatalf("reopen after crash failed: %v", err)
	}
	defer func() { _ = db2.Close() }()
	got := verifC02ReadAll(t, ctx, db2)
	// data whose commit had completed with index persistence (A) must be intact, B absent or at
	// its commit, and nothing else may appear
	if len(got) < 1 || got[0].tr != trA || !bytes.Equal(got[0].data, dataA) {
		t.Fatalf("domain A not intact after the crash: %+v", got)
	}
	for _, d := range got[1:] {
		if d.tr != (30 * telem.SecondTS).Range(35*telem.SecondTS) {
			t.Fatalf("a domain that was never written is listed after the crash: %+v", d)
		}
	}
}
