package codec_test

// Demonstration for the C08 finding fixed by the "fix:" commit on Codec.DecodeStream (copy into
// /repo/core/pkg/distribution/framer/codec and run `go test -vet=off -run TestVerifC08DecodeAlloc`).
// A 9-byte message whose equal-lengths header announces 2^30 samples made the decoder allocate
// 1 GiB before reading a single data byte (and 64 GiB, i.e. a fatal out-of-memory, with a 16-byte
// data type and length 2^32-1). The obligation Codec.DecodeStream#safe:alloc bounds every
// allocation by 1 MiB plus twice the bytes actually received.

import (
	"runtime"
	"testing"

	"github.com/synnaxlabs/synnax/pkg/distribution/channel"
	"github.com/synnaxlabs/synnax/pkg/distribution/framer/codec"
	"github.com/synnaxlabs/x/telem"
)

func TestVerifC08DecodeAlloc(t *testing.T) {
	cd := codec.NewStatic(channel.Keys{1}, []telem.DataType{telem.Uint8T})
	// flags: equal lengths | equal time ranges | time ranges zero | all channels present |
	// equal alignments | zero alignments = 0x3F; sequence number 1; length 2^30
	msg := []byte{0x3F, 0x01, 0x00, 0x00, 0x00, 0x00, 0x00, 0x00, 0x40}
	var before, after runtime.MemStats
	runtime.GC()
	runtime.ReadMemStats(&before)
	_, err := cd.Decode(msg)
	runtime.ReadMemStats(&after)
	if err == nil {
		t.Fatalf("decoding a truncated message succeeded")
	}
	if grown := after.TotalAlloc - before.TotalAlloc; grown > 16<<20 {
		t.Fatalf("decoding %d bytes allocated %d bytes (error returned: %v)", len(msg), grown, err)
	}
}
