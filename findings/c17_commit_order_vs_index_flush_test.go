package gorp_test

// Demonstration for the C17 finding "two transactions updating the same row: the index is flushed in
// the order the commits RETURN, not in the order they were applied" (copy into /repo/x/go/gorp and
// run `go test -vet=off -run TestVerifC17CommitOrderVsIndexFlush .`).
//
// gorp's tx.Commit commits the key-value transaction and then flushes the transaction's staged
// index changes into the committed index. Nothing ties the second step to the order of the first.
// T1 sets row 1 to name "one", T2 sets it to "two". T1's key-value commit is applied first but is
// slow to return (the store is an interface; a slow return is a legal behaviour); T2 commits and
// flushes meanwhile; then T1's flush runs. The store holds "two" - the later commit - and the index
// must agree with a scan.

import (
	"context"
	"sync"
	"sync/atomic"
	"testing"

	"github.com/synnaxlabs/x/gorp"
	"github.com/synnaxlabs/x/kv"
	"github.com/synnaxlabs/x/kv/memkv"
)

type verifNamed struct {
	ID   int32
	Name string
}

func (m verifNamed) GorpKey() int32    { return m.ID }
func (m verifNamed) SetOptions() []any { return nil }

type slowReturnDB struct {
	kv.DB
	armed   atomic.Bool
	once    sync.Once
	applied chan struct{}
	goOn    chan struct{}
}

type slowReturnTx struct {
	kv.Tx
	db *slowReturnDB
}

func (d *slowReturnDB) OpenTx() kv.Tx { return &slowReturnTx{Tx: d.DB.OpenTx(), db: d} }

func (t *slowReturnTx) Commit(ctx context.Context, opts ...any) error {
	err := t.Tx.Commit(ctx, opts...) // applied to the store here
	first := false
	if t.db.armed.Load() {
		t.db.once.Do(func() { first = true })
	}
	if first {
		close(t.db.applied)
		<-t.db.goOn
	}
	return err
}

func TestVerifC17CommitOrderVsIndexFlush(t *testing.T) {
	ctx := context.Background()
	store := &slowReturnDB{DB: memkv.New(), applied: make(chan struct{}), goOn: make(chan struct{})}
	db := gorp.Wrap(store)
	defer func() { _ = db.Close() }()
	nameIdx := gorp.NewLookupIndex[int32, verifNamed, string]("name", func(e *verifNamed) string { return e.Name })
	table, err := gorp.OpenTable(ctx, gorp.TableConfig[int32, verifNamed]{DB: db, Indexes: []gorp.Index[int32, verifNamed]{nameIdx}})
	if err != nil {
		t.Fatal(err)
	}
	defer func() { _ = table.Close() }()
	store.armed.Store(true)
	set := func(name string) error {
		tx := db.OpenTx()
		defer func() { _ = tx.Close() }()
		if err := table.NewCreate().Entry(&verifNamed{ID: 1, Name: name}).Exec(ctx, tx); err != nil {
			return err
		}
		return tx.Commit(ctx)
	}
	var wg sync.WaitGroup
	wg.Add(1)
	go func() {
		defer wg.Done()
		if err := set("one"); err != nil {
			t.Error(err)
		}
	}()
	<-store.applied // T1 is in the store, its Commit has not returned yet
	secondDone := make(chan struct{})
	go func() {
		defer close(secondDone)
		if err := set("two"); err != nil {
			t.Error(err)
		}
	}()
	<-secondDone
	close(store.goOn)
	wg.Wait()

	var stored verifNamed
	if err := table.NewRetrieve().Where(gorp.MatchKeys[int32, verifNamed](1)).Entry(&stored).Exec(ctx, db); err != nil {
		t.Fatal(err)
	}
	scan := func(name string) int {
		var res []verifNamed
		_ = table.NewRetrieve().Where(gorp.Match(func(_ gorp.Context, e *verifNamed) (bool, error) { return e.Name == name, nil })).Entries(&res).Exec(ctx, db)
		return len(res)
	}
	viaIndex := func(name string) int {
		var res []verifNamed
		_ = table.NewRetrieve().Where(nameIdx.Filter(name)).Entries(&res).Exec(ctx, db)
		return len(res)
	}
	t.Logf("row 1 is stored with name %q", stored.Name)
	for _, n := range []string{"one", "two"} {
		if s, i := scan(n), viaIndex(n); s != i {
			t.Errorf("name == %q: a scan returns %d row(s), the indexed query %d", n, s, i)
		}
	}
}
