package kv_test

// Demonstration for the C06 finding "start-up recovery applies an older operation over a newer one"
// (copy into /repo/aspen/internal/kv and run `go test -vet=off -run TestVerifC06RecoveryRegresses ./internal/kv/`).
// Node 1 (leaseholder) holds the newest write of a key, node 2 an older one (kv gossip is slowed
// down so that it does not catch up). A third node joins and recovers from both peers at once.

import (
	"context"
	"testing"
	"time"

	"github.com/synnaxlabs/aspen/internal/cluster"
	"github.com/synnaxlabs/aspen/internal/cluster/gossip"
	"github.com/synnaxlabs/aspen/internal/cluster/pledge"
	"github.com/synnaxlabs/aspen/internal/kv"
	"github.com/synnaxlabs/aspen/internal/kv/kvmock"
)

func TestVerifC06RecoveryRegresses(t *testing.T) {
	ctx := context.Background()
	regressed := 0
	const rounds = 40
	for i := 0; i < rounds; i++ {
		b := kvmock.NewBuilder(
			kv.Config{RecoveryThreshold: 12, GossipInterval: time.Hour},
			cluster.Config{
				Gossip: gossip.Config{Interval: 5 * time.Millisecond},
				Pledge: pledge.Config{RetryInterval: 5 * time.Millisecond},
			},
		)
		kv1, err := b.New(ctx, kv.Config{}, cluster.Config{})
		if err != nil {
			t.Fatal(err)
		}
		if err = kv1.Set(ctx, []byte("key"), []byte("old")); err != nil {
			t.Fatal(err)
		}
		kv2, err := b.New(ctx, kv.Config{}, cluster.Config{}) // recovers "old" from node 1
		if err != nil {
			t.Fatal(err)
		}
		v, c, err := kv2.Get(ctx, []byte("key"))
		if err != nil || string(v) != "old" {
			t.Fatalf("node 2 did not recover the first write: %q %v", v, err)
		}
		_ = c.Close()
		if err = kv1.Set(ctx, []byte("key"), []byte("new")); err != nil { // node 2 stays behind
			t.Fatal(err)
		}
		// wait until node 2 knows node 1 and vice versa so that node 3 sees both peers
		time.Sleep(50 * time.Millisecond)
		kv3, err := b.New(ctx, kv.Config{}, cluster.Config{})
		if err != nil {
			t.Fatal(err)
		}
		v, c, err = kv3.Get(ctx, []byte("key"))
		if err != nil {
			t.Fatalf("node 3 recovered nothing: %v", err)
		}
		got := string(v)
		_ = c.Close()
		if got == "old" {
			regressed++
		}
		_ = b.Close()
	}
	if regressed > 0 {
		t.Fatalf("in %d of %d rounds the joining node finished recovery holding the OLDER write although a peer had streamed it the newer one", regressed, rounds)
	}
}
