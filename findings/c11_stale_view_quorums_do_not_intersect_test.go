package pledge_test

// Demonstration for the C11 finding "two coordinators with different membership views can build
// quorums that do not intersect and admit two nodes under the same key" (copy into
// /repo/aspen/internal/cluster/pledge and run
// `go test -vet=off -run TestVerifC11StaleViewDuplicateKey ./internal/cluster/pledge/`).
//
// Members 1, 2, 3 form the cluster; nodes 4 and 5 join through member 1 with quorums that include
// member 2 (so member 2 has approved keys 4 and 5). Members 2 and 3 have not heard of 4 and 5 yet
// (gossip lag), and then a partition separates {2, 3} from {1, 4, 5}: each side sees the other as
// unhealthy. Member 1 knows five members; its quorum is floor(5/2)+1 = 3 = {1, 4, 5}. Member 2 knows
// three members; its quorum is floor(3/2)+1 = 2 = {2, 3}. Both are "a majority quorum of the members
// known to the coordinating node", they share no juror, and each side admits a node with key 6.

import (
	"context"
	"sync"
	"testing"

	"github.com/synnaxlabs/aspen/internal/cluster/pledge"
	"github.com/synnaxlabs/aspen/internal/node"
	"github.com/synnaxlabs/freighter/mock"
	"github.com/synnaxlabs/x/address"
)

func TestVerifC11StaleViewDuplicateKey(t *testing.T) {
	ctx := context.Background()
	net := mock.NewNetwork[pledge.Request, pledge.Response]()
	var mu sync.Mutex
	addrs := map[node.Key]address.Address{}
	views := map[node.Key]node.Group{} // what each member currently believes the cluster to be
	view := func(k node.Key) func() node.Group {
		return func() node.Group {
			mu.Lock()
			defer mu.Unlock()
			return views[k].Copy()
		}
	}
	arbitrate := func(k node.Key) {
		server := net.UnaryServer("")
		addrs[k] = server.Address
		err := pledge.Arbitrate(pledge.Config{TransportServer: server, TransportClient: net.UnaryClient(), Candidates: view(k)}, pledge.BlazingFastConfig)
		if err != nil {
			t.Fatal(err)
		}
	}
	for k := node.Key(1); k <= 5; k++ {
		arbitrate(k)
	}
	group := func(healthy []node.Key, unhealthy ...node.Key) node.Group {
		g := node.Group{}
		for _, k := range healthy {
			g[k] = node.Node{Key: k, Address: addrs[k], State: node.StateHealthy}
		}
		for _, k := range unhealthy {
			g[k] = node.Node{Key: k, Address: addrs[k], State: node.StateSuspect}
		}
		return g
	}
	setViews := func(ks []node.Key, g node.Group) {
		mu.Lock()
		defer mu.Unlock()
		for _, k := range ks {
			views[k] = g
		}
	}
	join := func(through node.Key) node.Key {
		res, err := pledge.Pledge(ctx, pledge.Config{
			TransportServer: net.UnaryServer(""), TransportClient: net.UnaryClient(),
			Peers: []address.Address{addrs[through]}, Candidates: func() node.Group { return node.Group{} },
		}, pledge.BlazingFastConfig)
		if err != nil {
			t.Fatalf("pledge through member %d: %v", through, err)
		}
		return res.Key
	}
	// the cluster is {1,2,3}; member 3 is briefly unhealthy in member 1's eyes, so the quorums that
	// admit 4 and 5 are {1,2} and {1,2,4}: member 2 approves both keys
	setViews([]node.Key{1, 2, 3}, group([]node.Key{1, 2, 3}))
	setViews([]node.Key{1}, group([]node.Key{1, 2}, 3))
	if k := join(1); k != 4 {
		t.Fatalf("expected key 4, got %d", k)
	}
	setViews([]node.Key{1, 4}, group([]node.Key{1, 2, 4}, 3))
	if k := join(1); k != 5 {
		t.Fatalf("expected key 5, got %d", k)
	}
	// partition: {1,4,5} know everybody and see 2,3 as unhealthy; {2,3} still believe the cluster
	// is {1,2,3} and see 1 as unhealthy
	setViews([]node.Key{1, 4, 5}, group([]node.Key{1, 4, 5}, 2, 3))
	setViews([]node.Key{2, 3}, group([]node.Key{2, 3}, 1))
	majoritySide := join(1)
	minoritySide := join(2)
	t.Logf("admitted through member 1: key %d; admitted through member 2: key %d", majoritySide, minoritySide)
	if majoritySide == minoritySide {
		t.Fatalf("two different nodes were admitted with the same key %d, each by a majority quorum of the members its coordinator knows", majoritySide)
	}
}
