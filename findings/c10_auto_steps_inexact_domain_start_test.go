package cesium_test

// Demonstration for the C10 finding "autoPrev tests the wrong approximation" (copy into /repo/cesium
// and run `go test -vet=off -run TestVerifC10AutoPrevDuplicates .`). The writer's start (500ms) is
// not itself a sample, so distances measured from the start of the domain are inexact at the start.

import (
	"context"
	"testing"

	"github.com/synnaxlabs/cesium"
	xfs "github.com/synnaxlabs/x/io/fs"
	"github.com/synnaxlabs/x/telem"
)

func verifC10AutoWalk(t *testing.T, forward bool) {
	ctx := context.Background()
	db, err := cesium.Open(ctx, "", cesium.WithFS(xfs.NewMem()))
	if err != nil {
		t.Fatal(err)
	}
	defer func() { _ = db.Close() }()
	if err = db.CreateChannel(ctx,
		cesium.Channel{Key: 1, Name: "time", DataType: telem.TimeStampT, IsIndex: true},
		cesium.Channel{Key: 2, Name: "data", DataType: telem.Int64T, Index: 1},
	); err != nil {
		t.Fatal(err)
	}
	w, err := db.OpenWriter(ctx, cesium.WriterConfig{Channels: []cesium.ChannelKey{1, 2}, Start: 500 * telem.MillisecondTS})
	if err != nil {
		t.Fatal(err)
	}
	ts := make([]telem.TimeStamp, 0)
	vs := make([]int64, 0)
	for i := 1; i <= 10; i++ {
		ts = append(ts, telem.TimeStamp(i)*telem.SecondTS)
		vs = append(vs, int64(i))
	}
	if _, err = w.Write(telem.MultiFrame([]cesium.ChannelKey{1, 2}, []telem.Series{telem.NewSeriesV(ts...), telem.NewSeriesV(vs...)})); err != nil {
		t.Fatal(err)
	}
	if _, err = w.Commit(); err != nil {
		t.Fatal(err)
	}
	_ = w.Close()
	it, err := db.OpenIterator(cesium.IteratorConfig{Bounds: telem.TimeRangeMax, Channels: []cesium.ChannelKey{2}, AutoChunkSize: 3})
	if err != nil {
		t.Fatal(err)
	}
	defer func() { _ = it.Close() }()
	if !forward {
		seen := map[int64]int{}
		for ok := it.SeekLast(); ok; {
			ok = it.Prev(cesium.AutoSpan)
			if !ok {
				break
			}
			for _, s := range it.Value().SeriesSlice() {
				got := telem.UnmarshalSeries[int64](s)
				v := s.TimeRange
				t.Logf("series time range [%d ns, %d ns) -> samples %v", v.Start, v.End, got)
				for _, g := range got {
					seen[g]++
					st := telem.TimeStamp(g) * telem.SecondTS
					if st < v.Start || st >= v.End {
						t.Errorf("sample stamped %ds is outside the series' reported time range [%d ns, %d ns)", g, v.Start, v.End)
					}
				}
			}
		}
		for i := int64(1); i <= 10; i++ {
			if seen[i] != 1 {
				t.Errorf("sample %d was returned %d times by the backward walk", i, seen[i])
			}
		}
		return
	}
	// the same walk forwards
	seen := map[int64]int{}
	for ok := it.SeekFirst(); ok; {
		ok = it.Next(cesium.AutoSpan)
		if !ok {
			break
		}
		for _, s := range it.Value().SeriesSlice() {
			got := telem.UnmarshalSeries[int64](s)
			v := s.TimeRange
			t.Logf("forward: series time range [%d ns, %d ns) -> samples %v", v.Start, v.End, got)
			for _, g := range got {
				seen[g]++
				st := telem.TimeStamp(g) * telem.SecondTS
				if st < v.Start || st >= v.End {
					t.Errorf("forward: sample stamped %ds is outside the series' reported time range [%d ns, %d ns)", g, v.Start, v.End)
				}
			}
		}
	}
	for i := int64(1); i <= 10; i++ {
		if seen[i] != 1 {
			t.Errorf("sample %d was returned %d times by the forward walk", i, seen[i])
		}
	}
}

// fixed by "fix: automatic iterator steps picked sample offsets with two of the three cases"
func TestVerifC10AutoPrevLosesSample(t *testing.T) { verifC10AutoWalk(t, false) }

// open known finding: a forward automatic step from a view start that is not a stored sample
func TestVerifC10AutoNextViewOneSampleShort(t *testing.T) { verifC10AutoWalk(t, true) }
