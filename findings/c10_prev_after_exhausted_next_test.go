package unary_test

// Demonstration for the C10 finding "a change of direction after the domain iterator was
// exhausted loses whole domains". domains 0..9s and 20..29s, bounds [0s,40s).
//   Next(25s): view [0,25)   -> 0..9, 20..24                       (domain iterator on the 2nd domain)
//   Next(15s): view [25,40)  -> 25..29; the accumulate loop calls internal.Next(), which fails and
//                               leaves the domain iterator invalid
//   Prev(40s): view [0,25)   -> only 20..24: internal.Prev() refuses to move while invalid, the
//                               first domain (0..9, inside the view) is never visited
// and mirrored: SeekLast, Prev(25s), Prev(15s) (runs off the first domain), Next(40s).
// Run: cd /repo/cesium && go test -overlay <json mapping internal/unary/zz_c10_dir_test.go to this file> -vet=off ./internal/unary -run TestVerifC10DirectionChange
import (
	"context"
	"testing"

	"github.com/synnaxlabs/cesium/internal/channel"
	"github.com/synnaxlabs/cesium/internal/unary"
	"github.com/synnaxlabs/x/encoding/json"
	xfs "github.com/synnaxlabs/x/io/fs"
	"github.com/synnaxlabs/x/telem"
)

func verifC10DirSetup(t *testing.T) (*unary.Iterator, func(name string), func()) {
	ctx := context.Background()
	fs := xfs.NewMem()
	idxFS, _ := fs.Sub("index")
	dataFS, _ := fs.Sub("data")
	indexDB, err := unary.Open(ctx, unary.Config{FS: idxFS, MetaCodec: json.Codec,
		Channel: channel.Channel{Name: "vidx", Key: 91, DataType: telem.TimeStampT, IsIndex: true, Index: 91}})
	if err != nil {
		t.Fatal(err)
	}
	db, err := unary.Open(ctx, unary.Config{FS: dataFS, MetaCodec: json.Codec,
		Channel: channel.Channel{Name: "vdata", Key: 92, DataType: telem.Int64T, Index: 91}})
	if err != nil {
		t.Fatal(err)
	}
	db.SetIndex(indexDB.Index())
	var stored []int64
	for _, d := range [][2]int64{{0, 9}, {20, 29}} {
		var secs []telem.TimeStamp
		var vals []int64
		for s := d[0]; s <= d[1]; s++ {
			secs = append(secs, telem.TimeStamp(s))
			vals = append(vals, s)
			stored = append(stored, s)
		}
		startTS := telem.TimeStamp(d[0]) * telem.SecondTS
		if err := unary.Write(ctx, indexDB, startTS, telem.NewSeriesSecondsTSV(secs...)); err != nil {
			t.Fatal(err)
		}
		if err := unary.Write(ctx, db, startTS, telem.NewSeriesV(vals...)); err != nil {
			t.Fatal(err)
		}
	}
	it, err := db.OpenIterator(unary.IteratorConfig{Bounds: (0 * telem.SecondTS).Range(40 * telem.SecondTS)})
	if err != nil {
		t.Fatal(err)
	}
	check := func(name string) {
		view := it.View()
		var want, got []int64
		for _, s := range stored {
			if view.ContainsStamp(telem.TimeStamp(s) * telem.SecondTS) {
				want = append(want, s)
			}
		}
		for _, s := range it.Value().SeriesSlice() {
			got = append(got, telem.UnmarshalSeries[int64](s)...)
		}
		if len(got) != len(want) {
			t.Errorf("%s view %v: got %v want %v", name, view, got, want)
		}
	}
	return it, check, func() { _ = it.Close(); _ = db.Close(); _ = indexDB.Close() }
}

func TestVerifC10DirectionChangePrevAfterExhaustedNext(t *testing.T) {
	ctx := context.Background()
	it, check, done := verifC10DirSetup(t)
	defer done()
	if !it.SeekFirst(ctx) {
		t.Fatal("SeekFirst failed")
	}
	it.Next(ctx, 25*telem.Second)
	check("next1")
	it.Next(ctx, 15*telem.Second)
	check("next2")
	it.Prev(ctx, 40*telem.Second)
	check("prev after exhausted next")
}

func TestVerifC10DirectionChangeNextAfterExhaustedPrev(t *testing.T) {
	ctx := context.Background()
	it, check, done := verifC10DirSetup(t)
	defer done()
	if !it.SeekLast(ctx) {
		t.Fatal("SeekLast failed")
	}
	it.Prev(ctx, 15*telem.Second)
	check("prev1")
	it.Prev(ctx, 25*telem.Second)
	check("prev2")
	it.Next(ctx, 40*telem.Second)
	check("next after exhausted prev")
}
