package domain_test

import (
	"context"
	"sync"
	"testing"

	"github.com/synnaxlabs/cesium/internal/domain"
	xfs "github.com/synnaxlabs/x/io/fs"
	"github.com/synnaxlabs/x/telem"
)

// The same defect without a forced schedule (see c09_concurrent_commits_stale_index_persist_test.go):
// four writers on disjoint regions of one domain database commit at once, the database is closed and
// reopened, 20000 times; on a 16-core machine one round in about 20000 comes back with a committed
// domain missing (copy into /repo/cesium/internal/domain, `go test -vet=off -run TestVerifC09Natural ./internal/domain/`).
func TestVerifC09Natural(t *testing.T) {
	ctx := context.Background()
	const rounds = 20000
	lost := 0
	for r := 0; r < rounds; r++ {
		mem := xfs.NewMem()
		db, err := domain.Open(domain.Config{FS: mem, FileSize: 1 * telem.Megabyte})
		if err != nil {
			t.Fatal(err)
		}
		var wg sync.WaitGroup
		start := make(chan struct{})
		const G = 4
		for g := 0; g < G; g++ {
			wg.Add(1)
			go func(g int) {
				defer wg.Done()
				s := telem.TimeStamp(10+20*g) * telem.SecondTS
				w, err := db.OpenWriter(ctx, domain.WriterConfig{Start: s, EnableAutoCommit: new(false)})
				if err != nil {
					t.Error(err)
					return
				}
				_, _ = w.Write([]byte{1, 2, 3, 4, 5, 6, 7, 8})
				<-start
				if err = w.Commit(ctx, s+5*telem.SecondTS); err != nil {
					t.Error(err)
				}
				_ = w.Close()
			}(g)
		}
		close(start)
		wg.Wait()
		_ = db.Close()
		db2, err := domain.Open(domain.Config{FS: mem, FileSize: 1 * telem.Megabyte})
		if err != nil {
			t.Fatalf("reopen: %v", err)
		}
		n := 0
		it := db2.OpenIterator(domain.IterRange(telem.TimeRangeMax))
		for ok := it.SeekFirst(ctx); ok; ok = it.Next() {
			n++
		}
		_ = it.Close()
		_ = db2.Close()
		if n != G {
			lost++
		}
	}
	t.Logf("lost in %d of %d rounds", lost, rounds)
	if lost > 0 {
		t.Fail()
	}
}
