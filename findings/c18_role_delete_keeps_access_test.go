package rbac_test

// Demonstration for the C18 finding "deleting a role does not revoke the access it granted" (copy
// into /repo/core/pkg/service/access/rbac and run
// `go test -vet=off -run TestRBAC ./pkg/service/access/rbac/ -ginkgo.focus "VerifC18"`).

import (
	"github.com/google/uuid"
	. "github.com/onsi/ginkgo/v2"
	. "github.com/onsi/gomega"
	"github.com/synnaxlabs/synnax/pkg/distribution/ontology"
	"github.com/synnaxlabs/synnax/pkg/service/access"
	"github.com/synnaxlabs/synnax/pkg/service/access/rbac/policy"
	"github.com/synnaxlabs/synnax/pkg/service/access/rbac/role"
)

var _ = Describe("VerifC18 deleting a role", func() {
	It("should revoke the access the role granted", func(ctx SpecContext) {
		tx := db.OpenTx()
		defer func() { Expect(tx.Close()).To(Succeed()) }()
		policyWriter := rbacSvc.Policy.NewWriter(tx, true)
		roleWriter := rbacSvc.Role.NewWriter(tx, true)
		subject := ontology.ID{Type: "user", Key: uuid.New().String()}
		obj := ontology.ID{Type: "channel", Key: "verif-channel"}
		Expect(otg.NewWriter(tx).DefineResource(ctx, subject)).To(Succeed())
		r := &role.Role{Name: "verif-role"}
		Expect(roleWriter.Create(ctx, r)).To(Succeed())
		p := &policy.Policy{Name: "verif-allow", Objects: []ontology.ID{obj}, Actions: []access.Action{access.ActionRetrieve}}
		Expect(policyWriter.Create(ctx, p)).To(Succeed())
		Expect(policyWriter.SetOnRole(ctx, r.Key, p.Key)).To(Succeed())
		Expect(roleWriter.AssignRole(ctx, subject, r.Key)).To(Succeed())
		req := access.Request{Subject: subject, Objects: []ontology.ID{obj}, Action: access.ActionRetrieve}
		Expect(rbacSvc.NewEnforcer(tx).Enforce(ctx, req)).To(Succeed())
		// the role is deleted: it is no longer one of the subject's roles
		Expect(roleWriter.Delete(ctx, r.Key)).To(Succeed())
		Expect(rbacSvc.NewEnforcer(tx).Enforce(ctx, req)).To(MatchError(access.ErrDenied),
			"the subject's only role was deleted, yet the access it granted is still there")
	})
})
