package ontology_test

// Demonstration for the C16 observation "resource keys may contain the relationship key separator"
// (copy into /repo/core/pkg/distribution/ontology and run
// `go test -vet=off -run TestVerifC16SeparatorInKey ./pkg/distribution/ontology/`).
//
// Relationships are stored under the string key from + "->" + type + "->" + to and the edges of a
// resource are found by key prefix / suffix. ID.Validate only asks for a non-empty type and key, so
// a key may itself contain "->" (device keys, for one, are caller-chosen strings). Resource A has
// key "a"; resource B has key "a->parent->sample:z"; B is the parent of C. Deleting A must leave the
// edge B -> C alone.

import (
	"context"
	"testing"

	"github.com/synnaxlabs/synnax/pkg/distribution/ontology"
	"github.com/synnaxlabs/x/errors"
	"github.com/synnaxlabs/x/gorp"
	"github.com/synnaxlabs/x/kv/memkv"
	"github.com/synnaxlabs/x/validate"
)

func TestVerifC16SeparatorInKey(t *testing.T) {
	ctx := context.Background()
	db := gorp.Wrap(memkv.New())
	defer func() { _ = db.Close() }()
	otg, err := ontology.Open(ctx, ontology.Config{DB: db})
	if err != nil {
		t.Fatal(err)
	}
	defer func() { _ = otg.Close() }()
	otg.RegisterService(&sampleService{})
	a, b, c := newSampleType("a"), newSampleType("a->parent->sample:z"), newSampleType("c")
	w := otg.NewWriter(nil)
	for _, id := range []ontology.ID{a, b, c} {
		if err := w.DefineResource(ctx, id); err != nil {
			if id == b && errors.Is(err, validate.ErrValidation) {
				// repaired tree: an ID containing the separator is refused, so no resource's
				// relationship keys can look like another's
				t.Logf("resource %s is refused: %v", id, err)
				return
			}
			t.Fatal(err)
		}
	}
	if err := w.DefineRelationship(ctx, b, ontology.RelationshipTypeParentOf, c); err != nil {
		t.Fatal(err)
	}
	if ok, err := w.HasRelationship(ctx, b, ontology.RelationshipTypeParentOf, c); err != nil || !ok {
		t.Fatalf("edge b -> c was not stored: %v %v", ok, err)
	}
	if err := w.DeleteResource(ctx, a); err != nil {
		t.Fatal(err)
	}
	ok, err := w.HasRelationship(ctx, b, ontology.RelationshipTypeParentOf, c)
	if err != nil {
		t.Fatal(err)
	}
	if !ok {
		t.Fatalf("deleting %s removed the edge %s -> %s, which does not touch it", a, b, c)
	}
}
