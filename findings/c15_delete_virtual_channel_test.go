package channel_test

// Demonstration for the C15 finding fixed by "fix: DeleteChannels silently skipped virtual
// channels" (copy into /repo/core/pkg/distribution/channel and run
// `go test -vet=off -run TestVerifC15DeleteVirtual ./pkg/distribution/channel/`).

import (
	"context"
	"testing"

	"github.com/onsi/gomega"
	"github.com/synnaxlabs/synnax/pkg/distribution/channel"
	"github.com/synnaxlabs/synnax/pkg/distribution/mock"
	"github.com/synnaxlabs/x/telem"
)

// A leased virtual channel deleted through the cluster API must be gone from the leaseholder's
// time-series engine as well.
func TestVerifC15DeleteVirtual(t *testing.T) {
	gomega.RegisterTestingT(t)
	ctx := context.Background()
	cluster := mock.ProvisionCluster(ctx, 1)
	defer func() { _ = cluster.Close() }()
	svc := cluster.Nodes[1].Channel
	tsDB := cluster.Nodes[1].Storage.TS
	ch := channel.Channel{Name: "verif_c15_virtual", DataType: telem.Float64T, Virtual: true, Leaseholder: 1}
	if err := svc.Create(ctx, &ch); err != nil {
		t.Fatal(err)
	}
	if _, err := tsDB.RetrieveChannel(ctx, ch.Key().StorageKey()); err != nil {
		t.Fatalf("engine does not hold the created virtual channel: %v", err)
	}
	if err := svc.Delete(ctx, ch.Key(), false); err != nil {
		t.Fatal(err)
	}
	var got channel.Channel
	if err := svc.NewRetrieve().Where(channel.MatchKeys(ch.Key())).Entry(&got).Exec(ctx, nil); err == nil {
		t.Fatalf("metadata still holds the deleted channel")
	}
	if eng, err := tsDB.RetrieveChannel(ctx, ch.Key().StorageKey()); err == nil {
		t.Fatalf("deleted through the cluster API, gone from metadata, but the engine still holds it: %+v", eng)
	}
}
