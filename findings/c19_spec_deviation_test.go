package compiler_test

// Demonstrations for C19 known findings (copy into /repo/arc/go/compiler and run
// `go test -vet=off -run TestVerifC19 ./compiler/`). Each sub-test states what arc/docs/spec.md
// defines and what the compiled module returns.

import (
	"context"
	"testing"

	"github.com/synnaxlabs/arc/compiler"
	symboltestutil "github.com/synnaxlabs/arc/symbol/testutil"
	"github.com/synnaxlabs/arc/text"
	"github.com/tetratelabs/wazero"
)

func verifC19Compile(t *testing.T, ctx context.Context, src string) []byte {
	t.Helper()
	prog, pDiag := text.Parse(text.Text{Raw: src})
	if pDiag != nil {
		t.Fatalf("parse: %s", pDiag.String())
	}
	inter, diag := text.Analyze(ctx, prog, symboltestutil.NewRoot(nil))
	if !diag.Ok() {
		t.Fatalf("analyze: %s", diag.String())
	}
	out, err := compiler.Compile(ctx, inter)
	if err != nil {
		t.Fatalf("compile: %v", err)
	}
	return out.WASM
}

func TestVerifC19(t *testing.T) {
	ctx := context.Background()
	r := wazero.NewRuntime(ctx)
	defer func() { _ = r.Close(ctx) }()
	mod, err := r.Instantiate(ctx, verifC19Compile(t, ctx, `
	func addu8(a u8, b u8) u8 { return a + b }
	func addi8(a i8, b i8) i8 { return a + b }
	func mulu16(a u16, b u16) u16 { return a * b }
	func ltu8(a u8, b u8) u8 { return (a + b) < 10 }
	func narrow(x i64) i8 { return i8(x) }
	func narrowu(x i64) u8 { return u8(x) }
	func f2i(x f64) i32 { return i32(x) }
	func f2u(x f64) u32 { return u32(x) }
	func s2u(x i32) u32 { return u32(x) }
	func u2s(x u32) i32 { return i32(x) }
	`))
	if err != nil {
		t.Fatalf("instantiate: %v", err)
	}
	call := func(name string, args ...uint64) (uint64, error) {
		res, err := mod.ExportedFunction(name).Call(ctx, args...)
		if err != nil {
			return 0, err
		}
		return res[0], nil
	}
	check := func(name string, want uint64, args ...uint64) {
		t.Run(name, func(t *testing.T) {
			got, err := call(name, args...)
			if err != nil {
				t.Fatalf("%s%v: trapped: %v (spec value %d)", name, args, err, want)
			}
			if got != want {
				t.Fatalf("%s%v = %d, spec value %d", name, args, got, want)
			}
		})
	}
	// two's-complement wrapping per integer width
	check("addu8", 0, 255, 1)
	check("addi8", uint64(uint32(0xFFFFFF80)), 127, 1) // -128 as an i32 register
	check("mulu16", 0, 256, 256)
	check("ltu8", 1, 250, 10) // (250+10) wraps to 4 < 10
	// narrowing truncates
	check("narrow", 44, 300)
	check("narrowu", 44, 300)
	// float -> integer truncates toward zero, saturates on overflow
	check("f2i", 2147483647, 0x4202A05F20000000) // 1e10
	check("f2u", 0, 0xBFF0000000000000)          // -1.0
	// signed <-> unsigned saturates at bounds
	check("s2u", 0, uint64(uint32(0xFFFFFFFF)))          // u32(i32 -1)
	check("u2s", 2147483647, uint64(uint32(0xFFFFFFFF))) // i32(u32 max)
}
