package domain

// Demonstration for the C09/C02 finding "two commits on one channel persist the index with closures
// that may run in the opposite order of their snapshots". index.insert snapshots the pointers under
// the index lock (indexPersist.prepare), releases the lock and only then runs the closure that
// truncates and rewrites index.domain; nothing orders the closures of two commits. The window is a
// few instructions wide, so the schedule is forced: findings/run_c09_stale_persist_demo.sh builds
// an overlay in which insert() calls verifPause() - standing for a preemption - between the unlock
// and the closure, and this test makes the first committer pause there until the second commit
// has returned. Both commits succeed; both writers and the database are closed; after reopening
// the channel must hold the two domains.

import (
	"context"
	"sync"
	"testing"

	xfs "github.com/synnaxlabs/x/io/fs"
	"github.com/synnaxlabs/x/telem"
)

func TestVerifC09StaleIndexPersist(t *testing.T) {
	ctx := context.Background()
	mem := xfs.NewMem()
	db, err := Open(Config{FS: mem, FileSize: 1 * telem.Megabyte})
	if err != nil {
		t.Fatal(err)
	}
	firstPaused, secondDone := make(chan struct{}), make(chan struct{})
	var once sync.Once
	verifPause = func() {
		first := false
		once.Do(func() { first = true })
		if first {
			close(firstPaused)
			<-secondDone
		}
	}
	defer func() { verifPause = func() {} }()
	commit := func(start telem.TimeStamp) {
		// no auto-commit: every Commit persists the index before it returns
		w, err := db.OpenWriter(ctx, WriterConfig{Start: start, EnableAutoCommit: new(false)})
		if err != nil {
			t.Error(err)
			return
		}
		if _, err = w.Write([]byte{1, 2, 3, 4, 5, 6, 7, 8}); err != nil {
			t.Error(err)
		}
		if err = w.Commit(ctx, start+5*telem.SecondTS); err != nil {
			t.Error(err)
		}
		if err = w.Close(); err != nil {
			t.Error(err)
		}
	}
	var wg sync.WaitGroup
	wg.Add(1)
	go func() { defer wg.Done(); commit(10 * telem.SecondTS) }() // is descheduled after taking its snapshot
	<-firstPaused
	commit(30 * telem.SecondTS) // commits and persists the index with both pointers
	close(secondDone)
	wg.Wait() // the first committer now writes its older snapshot
	if err = db.Close(); err != nil {
		t.Fatal(err)
	}
	db2, err := Open(Config{FS: mem, FileSize: 1 * telem.Megabyte})
	if err != nil {
		t.Fatalf("reopen: %v", err)
	}
	n := 0
	it := db2.OpenIterator(IterRange(telem.TimeRangeMax))
	for ok := it.SeekFirst(ctx); ok; ok = it.Next() {
		n++
	}
	_ = it.Close()
	_ = db2.Close()
	if n != 2 {
		t.Fatalf("both commits returned successfully, yet after close and reopen the channel holds %d domain(s) instead of 2", n)
	}
}
