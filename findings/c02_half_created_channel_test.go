package cesium_test

// Demonstration for the C02 known finding "a channel directory without meta.json makes Open fail"
// (copy into /repo/cesium and run `go test -vet=off -run TestVerifC02HalfCreatedChannel .`).
// The behaviour is pinned by an existing test (open_test.go: "Should error when numeric folders do
// not have meta.json file"), so it is recorded, not repaired.

import (
	"context"
	"os"
	"testing"

	"github.com/synnaxlabs/cesium"
	xfs "github.com/synnaxlabs/x/io/fs"
	"github.com/synnaxlabs/x/telem"
)

// Creating a channel makes its directory first and renames meta.json into place last. A crash in
// between leaves a numeric directory without meta.json; reopening the database then fails as a
// whole, and every other channel is unreachable.
func TestVerifC02HalfCreatedChannel(t *testing.T) {
	ctx := context.Background()
	mem := xfs.NewMem()
	db, err := cesium.Open(ctx, "", cesium.WithFS(mem))
	if err != nil {
		t.Fatal(err)
	}
	if err = db.CreateChannel(ctx, cesium.Channel{Key: 1, Name: "a", DataType: telem.Float64T, Virtual: true}); err != nil {
		t.Fatal(err)
	}
	if err = db.Close(); err != nil {
		t.Fatal(err)
	}
	// the image a crash during the creation of channel 2 leaves: directory, temporary meta file
	sub, err := mem.Sub("2")
	if err != nil {
		t.Fatal(err)
	}
	f, err := sub.Open("meta.json.tmp", os.O_CREATE|os.O_WRONLY)
	if err != nil {
		t.Fatal(err)
	}
	_, _ = f.Write([]byte("{"))
	_ = f.Close()
	db2, err := cesium.Open(ctx, "", cesium.WithFS(mem))
	if err != nil {
		t.Fatalf("reopening after a crash in the middle of a channel creation failed: %v", err)
	}
	if _, err = db2.RetrieveChannel(ctx, 1); err != nil {
		t.Fatalf("channel 1 lost: %v", err)
	}
	_ = db2.Close()
}
