package domain_test

import (
	"context"
	"testing"

	"github.com/synnaxlabs/cesium/internal/domain"
	xfs "github.com/synnaxlabs/x/io/fs"
	"github.com/synnaxlabs/x/telem"
)

func TestVerifC02DeletePersistsFromMiddle(t *testing.T) {
	ctx := context.Background()
	mem := xfs.NewMem()
	db, err := domain.Open(domain.Config{FS: mem, FileSize: 1 * telem.Megabyte})
	if err != nil {
		t.Fatal(err)
	}
	auto := true
	open := func(start telem.TimeStamp) *domain.Writer {
		w, err := db.OpenWriter(ctx, domain.WriterConfig{
			Start:                    start,
			EnableAutoCommit:         &auto,
			AutoIndexPersistInterval: 1 * telem.Hour,
		})
		if err != nil {
			t.Fatal(err)
		}
		return w
	}
	// two writers, each commits one domain; the index persist interval has not elapsed, so
	// neither pointer is on disk yet
	wa := open(10 * telem.SecondTS)
	if _, err = wa.Write([]byte{1, 2, 3, 4, 5, 6, 7, 8, 9, 10}); err != nil {
		t.Fatal(err)
	}
	if err = wa.Commit(ctx, 20*telem.SecondTS); err != nil {
		t.Fatal(err)
	}
	wb := open(30 * telem.SecondTS)
	if _, err = wb.Write([]byte{1, 2, 3, 4, 5, 6, 7, 8, 9, 10}); err != nil {
		t.Fatal(err)
	}
	if err = wb.Commit(ctx, 40*telem.SecondTS); err != nil {
		t.Fatal(err)
	}
	// delete the middle of the second domain
	off := func(n telem.Size, ts telem.TimeStamp) domain.OffsetResolver {
		return func(context.Context, telem.TimeStamp, telem.TimeStamp) (telem.Size, telem.TimeStamp, error) {
			return n, ts, nil
		}
	}
	if err = db.Delete(ctx, (32 * telem.SecondTS).Range(35*telem.SecondTS), off(2, 32*telem.SecondTS), off(5, 35*telem.SecondTS)); err != nil {
		t.Fatal(err)
	}
	// the process dies here: whatever is on disk now is what a restart sees
	db2, err := domain.Open(domain.Config{FS: mem, FileSize: 1 * telem.Megabyte})
	if err != nil {
		t.Fatalf("reopen: %v", err)
	}
	it := db2.OpenIterator(domain.IterRange(telem.TimeRangeMax))
	for ok := it.SeekFirst(ctx); ok; ok = it.Next() {
		tr := it.TimeRange()
		if tr.Start == 0 && tr.End == 0 {
			t.Fatalf("after reopening, the index lists a domain that was never written: %v", tr)
		}
		r, err := it.OpenReader(ctx)
		if err != nil {
			t.Fatalf("open reader on %v: %v", tr, err)
		}
		_ = r.Close()
	}
	_ = it.Close()
}
