package channel_test

// Demonstration for the C15 finding "RetrieveIfNameExists can hand out a key that the counter has
// not accounted for" (copy into /repo/core/pkg/distribution/channel and run
// `go test -vet=off -run TestVerifC15KeyReuse ./pkg/distribution/channel/`).

import (
	"context"
	"testing"

	"github.com/onsi/gomega"
	"github.com/synnaxlabs/synnax/pkg/distribution"
	"github.com/synnaxlabs/synnax/pkg/distribution/channel"
	"github.com/synnaxlabs/synnax/pkg/distribution/mock"
	"github.com/synnaxlabs/x/telem"
)

func TestVerifC15KeyReuse(t *testing.T) {
	gomega.RegisterTestingT(t)
	ctx := context.Background()
	off := false
	cluster := mock.ProvisionCluster(ctx, 1, distribution.LayerConfig{ValidateChannelNames: &off})
	defer func() { _ = cluster.Close() }()
	svc := cluster.Nodes[1].Channel
	mk := func(name string) channel.Channel {
		return channel.Channel{Name: name, DataType: telem.Float64T, Virtual: true, Leaseholder: 1}
	}
	// two stored channels with the same name (names are only unique with name validation on)
	x1, x2 := mk("verif_x"), mk("verif_x")
	if err := svc.Create(ctx, &x1); err != nil {
		t.Fatal(err)
	}
	if err := svc.Create(ctx, &x2); err != nil {
		t.Skipf("this configuration refuses duplicate names: %v", err)
	}
	// retrieve-or-create "verif_x" together with a new channel "verif_y"
	batch := []channel.Channel{mk("verif_x"), mk("verif_y")}
	if err := svc.CreateMany(ctx, &batch, channel.RetrieveIfNameExists()); err != nil {
		t.Fatal(err)
	}
	y := batch[1]
	// the next channel created must get a key nobody has
	z := mk("verif_z")
	if err := svc.Create(ctx, &z); err != nil {
		t.Fatalf("creating a brand-new channel after the retrieve-or-create failed (its key had already been handed to %q, key %v): %v", y.Name, y.Key(), err)
	}
	t.Logf("keys: x1=%v x2=%v y=%v z=%v", x1.Key(), x2.Key(), y.Key(), z.Key())
	if y.Key() == z.Key() {
		t.Fatalf("channel %q and channel %q were both given key %v", y.Name, z.Name, y.Key())
	}
}
