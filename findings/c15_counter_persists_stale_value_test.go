package kv_test

// Demonstration for the C15 finding "the persisted counter behind channel keys can be left at an
// older value by two concurrent Adds" (copy into /repo/x/go/kv and run
// `go test -vet=off -run TestVerifC15CounterPersistsStaleValue ./kv/`).
//
// AtomicInt64Counter.Add advances the in-memory value atomically and then writes the value it
// obtained to storage; nothing orders the two writes of two concurrent Adds. Here the first Add
// (3 keys, obtains 3) is slow to reach the store - the store is an interface, a slow Set is a
// legal behaviour - and the second Add (5 keys, obtains 8) writes first. Both callers were handed
// disjoint ranges, 1..3 and 4..8; the store ends at 3. After a restart the counter resumes at 3
// and hands out 4 again: distribution/channel.counter.add builds channel keys from exactly these
// numbers (createGateway calls it before taking the service lock), so a key is reused.

import (
	"context"
	"sync"
	"testing"
	"time"

	"github.com/synnaxlabs/x/kv"
	"github.com/synnaxlabs/x/kv/memkv"
)

type slowFirstSet struct {
	kv.DB
	once      sync.Once
	entered   chan struct{}
	goOnFirst chan struct{}
}

func (s *slowFirstSet) Set(ctx context.Context, key, value []byte, opts ...any) error {
	first := false
	s.once.Do(func() { first = true })
	if first {
		close(s.entered)
		<-s.goOnFirst
	}
	return s.DB.Set(ctx, key, value, opts...)
}

func TestVerifC15CounterPersistsStaleValue(t *testing.T) {
	ctx := context.Background()
	store := memkv.New()
	defer func() { _ = store.Close() }()
	db := &slowFirstSet{DB: store, entered: make(chan struct{}), goOnFirst: make(chan struct{})}
	c, err := kv.OpenCounter(ctx, db, []byte("counter"))
	if err != nil {
		t.Fatal(err)
	}
	var a int64
	var wg sync.WaitGroup
	wg.Add(1)
	go func() {
		defer wg.Done()
		a, _ = c.Add(ctx, 3) // keys 1..3
	}()
	<-db.entered
	var b int64
	secondDone := make(chan struct{})
	go func() {
		defer close(secondDone)
		b, _ = c.Add(ctx, 5) // keys 4..8; on the unrepaired code it is persisted first
	}()
	select {
	case <-secondDone:
	case <-time.After(300 * time.Millisecond):
		// the second Add waits for the first one's write: the order is enforced
	}
	close(db.goOnFirst)
	wg.Wait()
	<-secondDone
	if a != 3 || b != 8 {
		t.Fatalf("unexpected ranges: first Add returned %d, second %d", a, b)
	}
	// restart
	c2, err := kv.OpenCounter(ctx, store, []byte("counter"))
	if err != nil {
		t.Fatal(err)
	}
	next, err := c2.Add(ctx, 1)
	if err != nil {
		t.Fatal(err)
	}
	if next <= b {
		t.Fatalf("after a restart the counter hands out %d, which the second caller was already given (its range was %d..%d)", next, a+1, b)
	}
}
