package iterator_test

// Demonstration for the C07 finding "an iterator open that fails on the gateway leaves the iterators
// it already opened on peer nodes open" (copy into /repo/core/pkg/distribution/framer/iterator and
// run `go test -vet=off -run TestVerifC07FailedIteratorOpenLeaks ./pkg/distribution/framer/iterator/`).
//
// Channel B is leased to node 2, the virtual channel V to node 1. An iterator over [V, B] is asked
// for through node 1: NewStream opens the peer iterators first (B on node 2), then the gateway
// iterator, which refuses virtual channels, and returns that error without closing the peer
// streams. The caller holds no iterator, but on node 2 an iterator on B stays open - and a channel
// with an open iterator cannot be deleted.

import (
	"context"
	"testing"
	"time"

	"github.com/onsi/gomega"
	"github.com/synnaxlabs/synnax/pkg/distribution/channel"
	"github.com/synnaxlabs/synnax/pkg/distribution/framer/iterator"
	"github.com/synnaxlabs/synnax/pkg/distribution/mock"
	"github.com/synnaxlabs/x/telem"
)

func TestVerifC07FailedIteratorOpenLeaks(t *testing.T) {
	g := gomega.NewWithT(t)
	gomega.RegisterTestingT(t)
	ctx := context.Background()
	cl := mock.ProvisionCluster(ctx, 2)
	defer func() { _ = cl.Close() }()
	n1, n2 := cl.Nodes[1], cl.Nodes[2]
	chs := []channel.Channel{
		{Name: "verif_v", DataType: telem.Float32T, Virtual: true, Leaseholder: 1},
		{Name: "verif_b", IsIndex: true, DataType: telem.TimeStampT, Leaseholder: 2},
	}
	g.Expect(n1.Channel.NewWriter(nil).CreateMany(ctx, &chs)).To(gomega.Succeed())
	keys := channel.KeysFromChannels(chs)
	g.Eventually(func(g gomega.Gomega) {
		var res []channel.Channel
		g.Expect(n2.Channel.NewRetrieve().Entries(&res).Where(channel.MatchKeys(keys...)).Exec(ctx, nil)).To(gomega.Succeed())
		g.Expect(res).To(gomega.HaveLen(2))
	}).Should(gomega.Succeed())
	var b channel.Key
	for _, k := range keys {
		if k.Leaseholder() == 2 {
			b = k
		}
	}
	_, err := n1.Framer.OpenIterator(ctx, iterator.Config{Keys: keys, Bounds: telem.TimeRangeMax})
	if err == nil {
		t.Fatal("the iterator over a virtual channel was opened")
	}
	t.Logf("open failed: %v", err)
	time.Sleep(300 * time.Millisecond) // the peer opens its iterator when the request reaches it
	var lastErr error
	deadline := time.Now().Add(2 * time.Second)
	for time.Now().Before(deadline) {
		if lastErr = n2.Channel.NewWriter(nil).Delete(ctx, b, false); lastErr == nil {
			return
		}
		time.Sleep(50 * time.Millisecond)
	}
	t.Fatalf("two seconds after the failed open, channel B cannot be deleted on its own node: %v", lastErr)
}
