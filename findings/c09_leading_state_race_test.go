package control_test

// Demonstration for the C09 finding: Controller.LeadingState reads a region's gates/curr
// holding only the controller lock, while Gate.Release / SetAuthority mutate them holding
// only the region lock. Run with -race.
import (
	"sync"
	"testing"

	"github.com/synnaxlabs/cesium/internal/channel"
	"github.com/synnaxlabs/cesium/internal/control"
	xcontrol "github.com/synnaxlabs/x/control"
	"github.com/synnaxlabs/x/telem"
)

type verifRes struct{}

func (verifRes) ChannelKey() channel.Key { return 7 }

func TestVerifC09LeadingStateRace(t *testing.T) {
	c, err := control.New[verifRes](control.Config{Concurrency: xcontrol.ConcurrencyShared})
	if err != nil {
		t.Fatal(err)
	}
	open := func(key string, auth xcontrol.Authority) *control.Gate[verifRes] {
		g, _, err := c.OpenGate(control.GateConfig[verifRes]{
			TimeRange:    telem.TimeRangeMax,
			Authority:    auth,
			Subject:      xcontrol.Subject{Key: key},
			OpenResource: func() (verifRes, error) { return verifRes{}, nil },
		})
		if err != nil {
			t.Fatal(err)
		}
		return g
	}
	keeper := open("keeper", 1) // keeps the region alive
	var wg sync.WaitGroup
	stop := make(chan struct{})
	wg.Add(2)
	go func() {
		defer wg.Done()
		for i := 0; i < 2000; i++ {
			g := open("w", 5)
			g.SetAuthority(9)
			g.Release()
		}
		close(stop)
	}()
	go func() {
		defer wg.Done()
		for {
			select {
			case <-stop:
				return
			default:
				_ = c.LeadingState()
			}
		}
	}()
	wg.Wait()
	keeper.Release()
}
