package kv_test

// Demonstration for the C06 finding "start-up recovery filters a peer's operations by one high-water
// mark although versions are per-leaseholder counters" (copy into /repo/aspen/internal/kv and run
// `go test -vet=off -run TestVerifC06RecoveryHighWater ./internal/kv/`).
//
// Three nodes. Node 1 writes twenty keys (its version counter reaches 20) and every node receives
// them. Node 3 goes down. Node 2 - whose own version counter is still at 0 - writes key "b"
// (leaseholder 2, version 1); nodes 1 and 2 exchange it until its gossip dies out. Node 3 restarts
// on its old data and runs recovery: the high-water mark it sends is 20, both peers skip every
// digest older than that, so "b" is never streamed, and since it is no longer gossiped node 3 never
// holds it.

import (
	"context"
	"errors"
	"fmt"
	"go/types"
	"testing"
	"time"

	"github.com/synnaxlabs/aspen/internal/cluster"
	"github.com/synnaxlabs/aspen/internal/cluster/gossip"
	"github.com/synnaxlabs/aspen/internal/cluster/pledge"
	"github.com/synnaxlabs/aspen/internal/kv"
	"github.com/synnaxlabs/aspen/internal/kv/kvmock"
	"github.com/synnaxlabs/x/address"
	"github.com/synnaxlabs/x/kv/memkv"
)

func TestVerifC06RecoveryHighWater(t *testing.T) {
	ctx := context.Background()
	b := kvmock.NewBuilder(
		kv.Config{RecoveryThreshold: 2, GossipInterval: 5 * time.Millisecond},
		cluster.Config{
			Gossip: gossip.Config{Interval: 5 * time.Millisecond},
			Pledge: pledge.Config{RetryInterval: 5 * time.Millisecond},
		},
	)
	defer func() { _ = b.Close() }()
	must := func(err error) {
		t.Helper()
		if err != nil {
			t.Fatal(err)
		}
	}
	has := func(db *kv.DB, key string) bool {
		_, c, err := db.Get(ctx, []byte(key))
		if err != nil {
			return false
		}
		_ = c.Close()
		return true
	}
	eventually := func(what string, f func() bool) {
		t.Helper()
		for i := 0; i < 400; i++ {
			if f() {
				return
			}
			time.Sleep(10 * time.Millisecond)
		}
		t.Fatalf("timed out waiting until %s", what)
	}

	kv1, err := b.New(ctx, kv.Config{}, cluster.Config{})
	must(err)
	kv2, err := b.New(ctx, kv.Config{}, cluster.Config{})
	must(err)
	// node 3 keeps its key-value data and its cluster state in engines that survive its restart
	data3, state3 := memkv.New(), memkv.New()
	defer func() { _ = data3.Close(); _ = state3.Close() }()
	kv3, err := b.New(ctx, kv.Config{Engine: data3}, cluster.Config{Storage: state3, StorageFlushInterval: 5 * time.Millisecond})
	must(err)
	var c3 *cluster.Cluster
	for k, c := range b.ClusterAPIs {
		if _, isOther := map[*kv.DB]bool{kv1: true, kv2: true}[b.KVs[k].(*kv.DB)]; !isOther {
			c3 = c
		}
	}
	key3, addr3 := c3.HostKey(), c3.Host().Address

	for i := 0; i < 20; i++ {
		must(kv1.Set(ctx, []byte(fmt.Sprintf("a%02d", i)), []byte("x")))
	}
	eventually("nodes 2 and 3 hold node 1's twenty writes", func() bool { return has(kv2, "a19") && has(kv3, "a19") && has(kv3, "a00") })
	time.Sleep(100 * time.Millisecond) // let node 3 flush its cluster state

	// node 3 goes down: everything sent to its address fails from here on
	must(kv3.Close())
	must(c3.Close())
	delete(b.KVs, key3)
	delete(b.ClusterAPIs, key3)
	down := errors.New("node 3 is down")
	b.GossipNet.UnaryServer(addr3).BindHandler(func(context.Context, gossip.Message) (gossip.Message, error) { return gossip.Message{}, down })
	b.PledgeNet.UnaryServer(addr3).BindHandler(func(context.Context, pledge.Request) (pledge.Response, error) { return pledge.Response{}, down })
	b.OpNet.UnaryServer(addr3).BindHandler(func(context.Context, kv.TxRequest) (kv.TxRequest, error) { return kv.TxRequest{}, down })
	b.FeedbackNet.UnaryServer(addr3).BindHandler(func(context.Context, kv.FeedbackMessage) (types.Nil, error) { return types.Nil{}, down })
	b.LeaseNet.UnaryServer(addr3).BindHandler(func(context.Context, kv.TxRequest) (types.Nil, error) { return types.Nil{}, down })

	// node 2's first own write: leaseholder 2, version 1
	must(kv2.Set(ctx, []byte("b"), []byte("y")))
	eventually("node 1 holds node 2's write", func() bool { return has(kv1, "b") })
	time.Sleep(500 * time.Millisecond) // nodes 1 and 2 acknowledge it to each other until its gossip dies out

	// node 3 restarts on its old data, at its old address
	gossipServer := b.GossipNet.UnaryServer(addr3)
	var peers []address.Address
	for _, api := range b.ClusterAPIs {
		peers = append(peers, api.Host().Address)
	}
	cfgs := append(append([]cluster.Config{}, b.Configs...), cluster.Config{
		HostAddress:          addr3,
		Storage:              state3,
		StorageFlushInterval: 5 * time.Millisecond,
		Gossip:               gossip.Config{TransportClient: b.GossipNet.UnaryClient(), TransportServer: gossipServer},
		Pledge: pledge.Config{
			TransportClient: b.PledgeNet.UnaryClient(),
			TransportServer: b.PledgeNet.UnaryServer(addr3),
			Peers:           peers,
		},
	})
	c3b, err := cluster.Open(ctx, cfgs...)
	must(err)
	defer func() { _ = c3b.Close() }()
	if c3b.HostKey() != key3 {
		t.Fatalf("node 3 restarted as node %v", c3b.HostKey())
	}
	kvCfg := b.BaseCfg.Override(kv.Config{Engine: data3})
	kvCfg.Cluster = c3b
	kvCfg.BatchTransportClient = b.OpNet.UnaryClient()
	kvCfg.BatchTransportServer = b.OpNet.UnaryServer(addr3)
	kvCfg.FeedbackTransportServer = b.FeedbackNet.UnaryServer(addr3)
	kvCfg.FeedbackTransportClient = b.FeedbackNet.UnaryClient()
	kvCfg.LeaseTransportServer = b.LeaseNet.UnaryServer(addr3)
	kvCfg.LeaseTransportClient = b.LeaseNet.UnaryClient()
	kvCfg.RecoveryTransportServer = b.RecoveryNet.StreamServer(addr3)
	kvCfg.RecoveryTransportClient = b.RecoveryNet.StreamClient()
	kv3b, err := kv.Open(ctx, kvCfg) // runs recovery from nodes 1 and 2
	must(err)
	defer func() { _ = kv3b.Close() }()

	if !has(kv3b, "a19") {
		t.Fatal("node 3 lost its own data over the restart")
	}
	// gossip keeps running; give it two seconds to deliver what recovery did not
	deadline := time.Now().Add(2 * time.Second)
	for time.Now().Before(deadline) && !has(kv3b, "b") {
		time.Sleep(20 * time.Millisecond)
	}
	if !has(kv3b, "b") {
		t.Fatalf("two seconds after node 3 restarted and recovered from both peers it still does not hold " +
			"key \"b\" (leaseholder 2, version 1), which nodes 1 and 2 both hold: its high-water mark 20 " +
			"(from leaseholder 1's counter) made both peers skip it")
	}
}
