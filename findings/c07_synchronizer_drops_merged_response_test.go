package writer

// Demonstration for the C07 finding "the writer synchronizer forwards the last response instead of
// the merged one" (copy into /repo/core/pkg/distribution/framer/writer and run
// `go test -vet=off -run TestVerifC07SynchronizerDropsMergedResponse ./pkg/distribution/framer/writer/`).

import (
	"context"
	"testing"
)

func TestVerifC07SynchronizerDropsMergedResponse(t *testing.T) {
	s := &synchronizer{}
	s.nodeCount = 2
	ctx := context.Background()
	// two leaseholders answer the same synchronous write: the first refused it, the second took it
	if _, ok, _ := s.sync(ctx, Response{Command: CommandWrite, SeqNum: 1, Authorized: false}); ok {
		t.Fatal("forwarded before every leaseholder answered")
	}
	out, ok, _ := s.sync(ctx, Response{Command: CommandWrite, SeqNum: 1, Authorized: true})
	if !ok {
		t.Fatal("not forwarded after every leaseholder answered")
	}
	if out.Authorized {
		t.Errorf("one of the two leaseholders refused the write, yet the acknowledgement says Authorized=true")
	}
	// two leaseholders commit: the acknowledged end must cover both
	_, _, _ = s.sync(ctx, Response{Command: CommandCommit, SeqNum: 2, Authorized: true, End: 20})
	out, _, _ = s.sync(ctx, Response{Command: CommandCommit, SeqNum: 2, Authorized: true, End: 10})
	if out.End != 20 {
		t.Errorf("commit ends 20 and 10 were acknowledged as End=%d", out.End)
	}
}
