package unary_test

// Demonstration for the C10 finding: a fixed-span forward walk loses samples when a view
// starts inside a gap, reaches into a domain that extends beyond the view, and a later
// domain exists. Next accumulates the domain, is not "satisfied" (the frame does not start
// at the view start because of the gap), advances the domain iterator to the following
// domain, and the rest of the first domain is never returned.
import (
	"context"
	"testing"

	"github.com/synnaxlabs/cesium/internal/channel"
	"github.com/synnaxlabs/cesium/internal/unary"
	"github.com/synnaxlabs/x/encoding/json"
	xfs "github.com/synnaxlabs/x/io/fs"
	"github.com/synnaxlabs/x/telem"
)

func TestVerifC10GapThenLongDomain(t *testing.T) {
	ctx := context.Background()
	fs := xfs.NewMem()
	idxFS, _ := fs.Sub("index")
	dataFS, _ := fs.Sub("data")
	indexDB, err := unary.Open(ctx, unary.Config{FS: idxFS, MetaCodec: json.Codec,
		Channel: channel.Channel{Name: "vidx", Key: 91, DataType: telem.TimeStampT, IsIndex: true, Index: 91}})
	if err != nil {
		t.Fatal(err)
	}
	db, err := unary.Open(ctx, unary.Config{FS: dataFS, MetaCodec: json.Codec,
		Channel: channel.Channel{Name: "vdata", Key: 92, DataType: telem.Int64T, Index: 91}})
	if err != nil {
		t.Fatal(err)
	}
	db.SetIndex(indexDB.Index())
	defer func() { _ = db.Close(); _ = indexDB.Close() }()
	// domains: 0..2s, 10..29s, 40..45s (sample value = its timestamp in seconds)
	var stored []int64
	for _, d := range [][2]int64{{0, 2}, {10, 29}, {40, 45}} {
		var secs []telem.TimeStamp
		var vals []int64
		for s := d[0]; s <= d[1]; s++ {
			secs = append(secs, telem.TimeStamp(s))
			vals = append(vals, s)
			stored = append(stored, s)
		}
		startTS := telem.TimeStamp(d[0]) * telem.SecondTS
		if err := unary.Write(ctx, indexDB, startTS, telem.NewSeriesSecondsTSV(secs...)); err != nil {
			t.Fatal(err)
		}
		if err := unary.Write(ctx, db, startTS, telem.NewSeriesV(vals...)); err != nil {
			t.Fatal(err)
		}
	}
	it, err := db.OpenIterator(unary.IteratorConfig{Bounds: (0 * telem.SecondTS).Range(60 * telem.SecondTS)})
	if err != nil {
		t.Fatal(err)
	}
	defer func() { _ = it.Close() }()
	if !it.SeekFirst(ctx) {
		t.Fatal("SeekFirst failed")
	}
	var visited []int64
	// views: [0,5) [5,25) [25,30) [30,60)
	for n, span := range []telem.TimeSpan{5 * telem.Second, 20 * telem.Second, 5 * telem.Second, 30 * telem.Second} {
		it.Next(ctx, span)
		view := it.View()
		var want, got []int64
		for _, s := range stored {
			if view.ContainsStamp(telem.TimeStamp(s) * telem.SecondTS) {
				want = append(want, s)
			}
		}
		for _, s := range it.Value().SeriesSlice() {
			got = append(got, telem.UnmarshalSeries[int64](s)...)
		}
		visited = append(visited, got...)
		if len(got) != len(want) {
			t.Errorf("step %d view %v: got %v want %v", n, view, got, want)
		}
	}
	if len(visited) != len(stored) {
		t.Errorf("full traversal visited %d of %d samples: %v", len(visited), len(stored), visited)
	}
}
