package domain_test

// Demonstration for the C09 finding: index.insert read idx.persistHead and (through
// indexPersist.prepare) idx.mu.pointers after releasing idx.mu, racing with other writers'
// inserts. Run with -race: concurrent writers on disjoint time regions with index
// persistence on every commit.
import (
	"context"
	"sync"
	"testing"

	"github.com/synnaxlabs/cesium/internal/domain"
	xfs "github.com/synnaxlabs/x/io/fs"
	"github.com/synnaxlabs/x/telem"
)

func TestVerifC09InsertRace(t *testing.T) {
	ctx := context.Background()
	db, err := domain.Open(domain.Config{FS: xfs.NewMem(), FileSize: 1 * telem.Megabyte, GCThreshold: 0.8})
	if err != nil {
		t.Fatal(err)
	}
	defer func() { _ = db.Close() }()
	var wg sync.WaitGroup
	for g := 0; g < 4; g++ {
		wg.Add(1)
		go func(g int) {
			defer wg.Done()
			for i := 0; i < 50; i++ {
				start := telem.TimeStamp(g*1000+i*10) * telem.SecondTS
				w, err := db.OpenWriter(ctx, domain.WriterConfig{Start: start, AutoIndexPersistInterval: domain.AlwaysIndexPersistOnAutoCommit})
				if err != nil {
					t.Error(err)
					return
				}
				if _, err := w.Write([]byte{1, 2, 3, 4}); err != nil {
					t.Error(err)
				}
				if err := w.Commit(ctx, start+5*telem.SecondTS); err != nil {
					t.Error(err)
				}
				if err := w.Close(); err != nil {
					t.Error(err)
				}
			}
		}(g)
	}
	wg.Wait()
}
