package channel_test

// Demonstration for the C15 finding "a create batch that fails in the engine leaves the channels
// created before the failing one in the engine, without metadata" (copy into
// /repo/core/pkg/distribution/channel and run
// `go test -vet=off -run TestVerifC15FailedBatchCreate ./pkg/distribution/channel/`).
//
// createGateway hands the whole batch to the time-series engine and writes the metadata afterwards.
// cesium's CreateChannel creates the channels one by one and stops at the first error, keeping the
// ones it has created. A batch of a valid channel followed by a data channel whose index does not
// exist fails - and the first channel exists in the engine with no metadata. The property asks that
// the channels in metadata are exactly those in the engines, "including failing requests in the
// middle of a batch".

import (
	"context"
	"testing"

	"github.com/onsi/gomega"
	"github.com/synnaxlabs/synnax/pkg/distribution/channel"
	"github.com/synnaxlabs/synnax/pkg/distribution/mock"
	"github.com/synnaxlabs/x/telem"
)

func TestVerifC15FailedBatchCreate(t *testing.T) {
	gomega.RegisterTestingT(t)
	ctx := context.Background()
	cl := mock.ProvisionCluster(ctx, 1)
	defer func() { _ = cl.Close() }()
	n := cl.Nodes[1]
	batch := []channel.Channel{
		{Name: "verif_first", DataType: telem.Float32T, Virtual: true, Leaseholder: 1},
		{Name: "verif_second", DataType: telem.Float32T, LocalIndex: 4242, Leaseholder: 1}, // no such index channel
	}
	err := n.Channel.NewWriter(nil).CreateMany(ctx, &batch)
	if err == nil {
		t.Fatal("the batch with a dangling index was accepted")
	}
	t.Logf("create failed: %v", err)
	var inMeta []channel.Channel
	_ = n.Channel.NewRetrieve().Entries(&inMeta).Where(channel.MatchNames("verif_first", "verif_second")).Exec(ctx, nil)
	if len(inMeta) != 0 {
		t.Fatalf("the failed batch left %d channel(s) in the metadata", len(inMeta))
	}
	// the engine must not hold any channel of the failed batch. The batch's keys are not reported
	// back on failure; a later create tells where the counter stands: the batch used the two
	// keys before it.
	probe := channel.Channel{Name: "verif_probe", DataType: telem.Float32T, Virtual: true, Leaseholder: 1}
	if err := n.Channel.NewWriter(nil).Create(ctx, &probe); err != nil {
		t.Fatal(err)
	}
	for back := channel.LocalKey(1); back <= 2; back++ {
		k := channel.NewKey(1, probe.LocalKey-back)
		if got, err := n.Storage.TS.RetrieveChannel(ctx, k.StorageKey()); err == nil {
			var meta []channel.Channel
			_ = n.Channel.NewRetrieve().Entries(&meta).Where(channel.MatchKeys(k)).Exec(ctx, nil)
			if len(meta) == 0 {
				t.Errorf("after the failed create the engine holds channel %v (%q), which the metadata does not know", got.Key, got.Name)
			}
		}
	}
}
