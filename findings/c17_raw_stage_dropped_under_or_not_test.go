package gorp_test

// Demonstration for the C17 finding "a raw predicate is dropped when it is nested under Or / Not
// next to a decoded predicate, and when it is combined with a key set" (copy into /repo/x/go/gorp
// and run `go test -vet=off -run TestVerifC17RawStageDropped .`).
//
// And(Match(p), MatchRaw(r)) is a filter with an eval closure for p and a raw closure for r; at the
// top level the query runs both. Nested under Or / Not the child is evaluated by evalChild, which
// returns the eval closure's answer as soon as there is one and never looks at the raw closure. The
// expected answers below are what a full scan with the equivalent predicate returns.

import (
	"bytes"
	"context"
	"testing"

	"github.com/synnaxlabs/x/gorp"
	"github.com/synnaxlabs/x/kv/memkv"
)

type verifRow struct {
	ID   int32
	Data string
}

func (m verifRow) GorpKey() int32    { return m.ID }
func (m verifRow) SetOptions() []any { return nil }

func TestVerifC17RawStageDropped(t *testing.T) {
	ctx := context.Background()
	db := gorp.Wrap(memkv.New())
	defer func() { _ = db.Close() }()
	rows := make([]verifRow, 10)
	for i := range rows {
		rows[i] = verifRow{ID: int32(i), Data: "data"}
	}
	if err := gorp.NewCreate[int32, verifRow]().Entries(&rows).Exec(ctx, db); err != nil {
		t.Fatal(err)
	}
	idBelow5 := gorp.Match(func(_ gorp.Context, e *verifRow) (bool, error) { return e.ID < 5, nil })
	rawNever := gorp.MatchRaw[int32, verifRow](func(_, data []byte) (bool, error) {
		return bytes.Contains(data, []byte("nonexistent")), nil
	})
	never := gorp.Match(func(_ gorp.Context, _ *verifRow) (bool, error) { return false, nil })
	both := gorp.And(idBelow5, rawNever) // matches no row: the raw stage rejects everything

	count := func(f gorp.Filter[int32, verifRow]) int {
		var res []verifRow
		if err := gorp.NewRetrieve[int32, verifRow]().Where(f).Entries(&res).Exec(ctx, db); err != nil {
			t.Fatal(err)
		}
		return len(res)
	}
	if n := count(both); n != 0 {
		t.Fatalf("And(id<5, raw-never) alone matches %d rows", n)
	}
	if n := count(gorp.Or(both, never)); n != 0 {
		t.Errorf("Or(And(id<5, raw-never), never) matches %d rows; a scan with the same predicate matches 0", n)
	}
	if n := count(gorp.Not(both)); n != 10 {
		t.Errorf("Not(And(id<5, raw-never)) matches %d rows; a scan with the same predicate matches 10", n)
	}
	// combined with a key set (the path a query resolved through a secondary index takes as well)
	// the rows are fetched by key and only the decoded predicates were run against them
	if n := count(gorp.And(gorp.MatchKeys[int32, verifRow](1, 2, 3), rawNever)); n != 0 {
		t.Errorf("And(MatchKeys(1,2,3), raw-never) matches %d rows; a scan with the same predicate matches 0", n)
	}
}
