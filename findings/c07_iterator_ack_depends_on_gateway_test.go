package iterator_test

// Demonstration for the C07 finding "the iterator synchronizer forwards the last acknowledgement
// instead of the merged one" (copy into /repo/core/pkg/distribution/framer/iterator and run
// `go test -vet=off -run TestVerifC07IteratorAckDependsOnGateway ./pkg/distribution/framer/iterator/`).
//
// Two index channels, one leased to node 1 with samples 10..22 s and one leased to node 2 with
// samples 10..15 s. The same command sequence (SeekFirst, Next(10 s), Next(10 s)) is run through an
// iterator opened on node 1 and through one opened on node 2. The second Next covers [20 s, 30 s):
// node 1 has samples there, node 2 has none. The value Next reports must not depend on which node
// the iterator was opened on.

import (
	"context"
	"testing"

	"github.com/onsi/gomega"
	"github.com/synnaxlabs/synnax/pkg/distribution/channel"
	"github.com/synnaxlabs/synnax/pkg/distribution/framer/frame"
	"github.com/synnaxlabs/synnax/pkg/distribution/framer/iterator"
	"github.com/synnaxlabs/synnax/pkg/distribution/framer/writer"
	"github.com/synnaxlabs/synnax/pkg/distribution/mock"
	"github.com/synnaxlabs/x/telem"
)

func TestVerifC07IteratorAckDependsOnGateway(t *testing.T) {
	g := gomega.NewWithT(t)
	gomega.RegisterTestingT(t)
	ctx := context.Background()
	channels := []channel.Channel{
		{Name: "verif_n1", IsIndex: true, DataType: telem.TimeStampT, Leaseholder: 1},
		{Name: "verif_n2", IsIndex: true, DataType: telem.TimeStampT, Leaseholder: 2},
	}
	builder := mock.ProvisionCluster(ctx, 2)
	defer func() { _ = builder.Close() }()
	n1, n2 := builder.Nodes[1], builder.Nodes[2]
	g.Expect(n1.Channel.NewWriter(nil).CreateMany(ctx, &channels)).To(gomega.Succeed())
	keys := channel.KeysFromChannels(channels)
	for _, n := range []mock.Node{n1, n2} {
		n := n
		g.Eventually(func(g gomega.Gomega) {
			var chs []channel.Channel
			g.Expect(n.Channel.NewRetrieve().Entries(&chs).Where(channel.MatchKeys(keys...)).
				Exec(ctx, nil)).To(gomega.Succeed())
			g.Expect(chs).To(gomega.HaveLen(2))
		}).Should(gomega.Succeed())
	}
	write := func(k channel.Key, ts ...telem.TimeStamp) {
		w, err := n1.Framer.OpenWriter(ctx, writer.Config{
			Keys: channel.Keys{k}, Start: 10 * telem.SecondTS, Sync: new(true),
		})
		g.Expect(err).ToNot(gomega.HaveOccurred())
		ok, err := w.Write(frame.NewMulti(channel.Keys{k}, []telem.Series{telem.NewSeriesSecondsTSV(ts...)}))
		g.Expect(err).ToNot(gomega.HaveOccurred())
		g.Expect(ok).To(gomega.BeTrue())
		_, err = w.Commit()
		g.Expect(err).ToNot(gomega.HaveOccurred())
		g.Expect(w.Close()).To(gomega.Succeed())
	}
	write(keys[0], 10, 11, 12, 13, 14, 15, 16, 17, 18, 19, 20, 21, 22)
	write(keys[1], 10, 11, 12, 13, 14, 15)

	run := func(n mock.Node) (acks []bool, samples int64) {
		it, err := n.Framer.OpenIterator(ctx, iterator.Config{Keys: keys, Bounds: telem.TimeRangeMax})
		g.Expect(err).ToNot(gomega.HaveOccurred())
		acks = append(acks, it.SeekFirst())
		acks = append(acks, it.Next(10*telem.Second))
		samples += it.Value().Len()
		acks = append(acks, it.Next(10*telem.Second))
		for s := range it.Value().Series() {
			samples += s.Len()
		}
		g.Expect(it.Close()).To(gomega.Succeed())
		return
	}
	for round := 0; round < 5; round++ {
		a1, _ := run(n1)
		a2, _ := run(n2)
		t.Logf("round %d: opened on node 1 -> %v, opened on node 2 -> %v", round, a1, a2)
		for i := range a1 {
			if a1[i] != a2[i] {
				t.Errorf("command %d: the iterator opened on node 1 reports %v, the one opened on node 2 reports %v",
					i, a1[i], a2[i])
			}
		}
	}
}
