package codec

// Demonstration for the C08 finding "Codec.update raises the 'update available' flag before it sends
// the new state" (copy into /repo/core/pkg/distribution/framer/codec and run
// `go test -vet=off -run TestVerifC08UpdateLost ./pkg/distribution/framer/codec/`).
//
// update() is called from the goroutine that reads requests (a client changes the channel set),
// processUpdates() from the goroutine that encodes or decodes frames. update stores the flag and
// then sends the state on a buffered channel; processUpdates clears the flag and drains the
// channel. When processUpdates runs between the two steps it clears the flag, finds nothing, and the
// state sent a moment later stays in the channel with the flag down: the codec keeps using the old
// channel set until some later update - the two sides are then apart for good, not for a bounded
// number of updates. One update races with a loop of processUpdates, then processUpdates is called
// once more (as the next Encode/Decode would); the update must have been applied by then.

import (
	"sync"
	"testing"

	"github.com/synnaxlabs/synnax/pkg/distribution/channel"
	"github.com/synnaxlabs/x/telem"
)

func TestVerifC08UpdateLost(t *testing.T) {
	const rounds = 200000
	lost := 0
	for r := 0; r < rounds; r++ {
		c := newCodec()
		stop := make(chan struct{})
		var wg sync.WaitGroup
		wg.Add(1)
		go func() {
			defer wg.Done()
			for {
				select {
				case <-stop:
					return
				default:
					c.processUpdates()
				}
			}
		}()
		c.update(channel.Keys{1}, map[channel.Key]telem.DataType{1: telem.Float32T})
		close(stop)
		wg.Wait()
		c.processUpdates() // what the next Encode / Decode does first
		if c.mu.seqNum != 1 {
			lost++
		}
	}
	if lost > 0 {
		t.Fatalf("in %d of %d rounds the update was still not applied after update() had returned and processUpdates() had run again", lost, rounds)
	}
}
