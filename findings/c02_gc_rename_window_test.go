package domain_test

// Demonstration for the C02 known finding on garbage collection (copy into
// /repo/cesium/internal/domain and run `go test -vet=off -run TestVerifC02GCRenameWindow ./internal/domain/`).

import (
	"bytes"
	"context"
	"errors"
	"sync"
	"testing"

	"github.com/synnaxlabs/cesium/internal/domain"
	xfs "github.com/synnaxlabs/x/io/fs"
	"github.com/synnaxlabs/x/telem"
)

// ---------------------------------------------------------------------------
// A minimal "process crash" file system: it forwards everything to an in-memory
// FS until a chosen mutating call is reached. From that call on (inclusive), no
// mutation reaches the underlying FS any more, i.e. the underlying MemFS is
// exactly the image a process crash at that instant would leave behind
// (completed calls survive, the crashing call and everything after it do not).
// ---------------------------------------------------------------------------

var errVerifC02gcCrashed = errors.New("verif C02 gc: simulated process crash")

type verifC02gcCrash struct {
	mu      sync.Mutex
	crashed bool
	// crashBefore decides, for every mutating call, whether the process dies
	// right before the call is executed.
	crashBefore func(op, name string) bool
}

func (c *verifC02gcCrash) gate(op, name string) error {
	c.mu.Lock()
	defer c.mu.Unlock()
	if c.crashed {
		return errVerifC02gcCrashed
	}
	if c.crashBefore != nil && c.crashBefore(op, name) {
		c.crashed = true
		return errVerifC02gcCrashed
	}
	return nil
}

type verifC02gcFS struct {
	xfs.FS
	c *verifC02gcCrash
}

func (f *verifC02gcFS) Open(name string, flag int) (xfs.File, error) {
	if err := f.c.gate("open", name); err != nil {
		return nil, err
	}
	file, err := f.FS.Open(name, flag)
	if err != nil {
		return nil, err
	}
	return &verifC02gcFile{File: file, name: name, c: f.c}, nil
}

func (f *verifC02gcFS) Rename(a, b string) error {
	if err := f.c.gate("rename", a); err != nil {
		return err
	}
	return f.FS.Rename(a, b)
}

func (f *verifC02gcFS) Remove(name string) error {
	if err := f.c.gate("remove", name); err != nil {
		return err
	}
	return f.FS.Remove(name)
}

type verifC02gcFile struct {
	xfs.File
	name string
	c    *verifC02gcCrash
}

func (f *verifC02gcFile) Write(p []byte) (int, error) {
	if err := f.c.gate("write", f.name); err != nil {
		return 0, err
	}
	return f.File.Write(p)
}

func (f *verifC02gcFile) WriteAt(p []byte, off int64) (int, error) {
	if err := f.c.gate("write_at", f.name); err != nil {
		return 0, err
	}
	return f.File.WriteAt(p, off)
}

func (f *verifC02gcFile) Truncate(size int64) error {
	if err := f.c.gate("truncate", f.name); err != nil {
		return err
	}
	return f.File.Truncate(size)
}

type verifC02gcDomain struct {
	tr   telem.TimeRange
	data []byte
}

func verifC02gcReadAll(t *testing.T, ctx context.Context, db *domain.DB) []verifC02gcDomain {
	t.Helper()
	var out []verifC02gcDomain
	it := db.OpenIterator(domain.IterRange(telem.TimeRangeMax))
	for ok := it.SeekFirst(ctx); ok; ok = it.Next() {
		r, err := it.OpenReader(ctx)
		if err != nil {
			t.Fatalf("open reader on domain %v: %v", it.TimeRange(), err)
		}
		buf := make([]byte, it.Size())
		if len(buf) > 0 {
			if _, err = r.ReadAt(buf, 0); err != nil {
				t.Fatalf("read domain %v: %v", it.TimeRange(), err)
			}
		}
		if err = r.Close(); err != nil {
			t.Fatal(err)
		}
		out = append(out, verifC02gcDomain{tr: it.TimeRange(), data: buf})
	}
	if err := it.Close(); err != nil {
		t.Fatal(err)
	}
	return out
}

// TestVerifC02GCRenameWindow: three domains share one data file; the middle one is deleted and
// the file is garbage collected. GC renames the compacted copy over the data file and persists the
// shifted offsets only afterwards (once, after all files). The process dies between the rename and
// that persist: on disk the file is the compacted one, the index still holds the old offsets, and
// after a restart the third domain reads back bytes that were never written for it.
func TestVerifC02GCRenameWindow(t *testing.T) {
	ctx := context.Background()
	mem := xfs.NewMem()
	crash := &verifC02gcCrash{}
	db, err := domain.Open(domain.Config{
		FS:          &verifC02gcFS{FS: mem, c: crash},
		FileSize:    35 * telem.Byte, // three 10-byte domains fill the file (nominal size is 0.8 * FileSize)
		GCThreshold: 0.1,
	})
	if err != nil {
		t.Fatal(err)
	}
	mk := func(b byte) []byte {
		d := make([]byte, 10)
		for i := range d {
			d[i] = b
		}
		return d
	}
	for i, b := range []byte{1, 2, 3} {
		tr := (telem.TimeStamp(10*(i+1)) * telem.SecondTS).Range(telem.TimeStamp(10*(i+1)+5) * telem.SecondTS)
		if err = domain.Write(ctx, db, tr, mk(b)); err != nil {
			t.Fatal(err)
		}
	}
	whole := func(n telem.Size, ts telem.TimeStamp) domain.OffsetResolver {
		return func(context.Context, telem.TimeStamp, telem.TimeStamp) (telem.Size, telem.TimeStamp, error) {
			return n, ts, nil
		}
	}
	// delete the whole second domain [20s,25s)
	if err = db.Delete(ctx, (20 * telem.SecondTS).Range(25*telem.SecondTS), whole(0, 20*telem.SecondTS), whole(10, 25*telem.SecondTS)); err != nil {
		t.Fatal(err)
	}
	// the process dies right after the compacted copy was renamed over the data file
	renames := 0
	crash.mu.Lock()
	crash.crashBefore = func(op, name string) bool {
		if op == "rename" {
			renames++
			return false
		}
		// first mutation after the second rename: the index persist (truncate) or the removal of the temp file
		return renames >= 2
	}
	crash.mu.Unlock()
	gcErr := db.GarbageCollect(ctx)
	if renames < 2 {
		t.Logf("GarbageCollect returned %v", gcErr)
		t.Skipf("garbage collection did not compact the file (renames=%d)", renames)
	}
	_ = db.Close()

	db2, err := domain.Open(domain.Config{FS: mem, FileSize: 35 * telem.Byte})
	if err != nil {
		t.Fatalf("reopen after crash failed: %v", err)
	}
	defer func() { _ = db2.Close() }()
	for _, d := range verifC02gcReadAll(t, ctx, db2) {
		want := byte(d.tr.Start / (10 * telem.SecondTS))
		if !bytes.Equal(d.data, mk(want)) {
			t.Fatalf("after the crash domain %v reads %v, but %v was written for it", d.tr, d.data, mk(want))
		}
	}
}
