package cesium_test

// Demonstration for the C01/C10 finding fixed by "fix: Distance treated a range ending exactly at
// the end of a later contiguous index domain as discontinuous" (copy into /repo/cesium and run
// `go test -vet=off -run TestVerifC01ReadEndingOnIndexDomainBoundary .`). Without the fix the
// read of [0, sample 39] returns 0 samples and no error.

import (
	"context"
	"testing"

	"github.com/synnaxlabs/cesium"
	xfs "github.com/synnaxlabs/x/io/fs"
	"github.com/synnaxlabs/x/telem"
)

// An index channel that rolled over into several contiguous domains, a data channel whose
// single domain spans them, and a read whose end falls exactly on the end of the second
// (or a later) index domain.
func TestVerifC01ReadEndingOnIndexDomainBoundary(t *testing.T) {
	ctx := context.Background()
	db, err := cesium.Open(ctx, "", cesium.WithFS(xfs.NewMem()), cesium.WithFileSizeCap(100*telem.Byte))
	if err != nil {
		t.Fatal(err)
	}
	defer func() { _ = db.Close() }()
	const idx, data cesium.ChannelKey = 1, 2
	if err = db.CreateChannel(ctx,
		cesium.Channel{Key: idx, Name: "time", DataType: telem.TimeStampT, IsIndex: true},
		cesium.Channel{Key: data, Name: "data", DataType: telem.Uint8T, Index: idx},
	); err != nil {
		t.Fatal(err)
	}
	w, err := db.OpenWriter(ctx, cesium.WriterConfig{Channels: []cesium.ChannelKey{idx, data}, Start: 0})
	if err != nil {
		t.Fatal(err)
	}
	// 5 commits of 10 samples each; the index channel (8 bytes per sample) outgrows its file
	// after every commit or two and continues in a new, contiguous domain; the data channel
	// (1 byte per sample) stays in one domain
	for c := 0; c < 5; c++ {
		var ts []telem.TimeStamp
		var vs []uint8
		for i := 0; i < 10; i++ {
			n := c*10 + i
			ts = append(ts, telem.TimeStamp(n)*telem.SecondTS)
			vs = append(vs, uint8(n))
		}
		if _, err = w.Write(telem.MultiFrame([]cesium.ChannelKey{idx, data}, []telem.Series{telem.NewSeriesV(ts...), telem.NewSeriesV(vs...)})); err != nil {
			t.Fatal(err)
		}
		if _, err = w.Commit(); err != nil {
			t.Fatal(err)
		}
	}
	if err = w.Close(); err != nil {
		t.Fatal(err)
	}
	for _, endSample := range []int{10, 20, 30, 40} {
		end := telem.TimeStamp(endSample-1)*telem.SecondTS + 1
		fr, err := db.Read(ctx, telem.TimeRange{Start: 0, End: end}, data)
		if err != nil {
			t.Errorf("read [0, sample %d] failed: %v", endSample-1, err)
			continue
		}
		n := 0
		for _, s := range fr.SeriesSlice() {
			n += int(s.Len())
		}
		if n != endSample {
			t.Errorf("read [0, sample %d] returned %d samples, want %d", endSample-1, n, endSample)
		}
	}
}
