package kv

// Demonstration for the C06 finding "an acknowledgement of an older operation evicts the newer
// operation on the same key from the set a node gossips" (copy into /repo/aspen/internal/kv and run
// `go test -vet=off -run TestVerifC06RecoveredOldOpEvictsNewer ./internal/kv/`).
//
// The set of operations a node still gossips is a map from key to one operation (kvStore). Two
// stages write into it: newly persisted operations (state "infected": keep gossiping) and the
// recovery transform, which marks an operation "recovered" (stop gossiping) once enough peers have
// said they already have it. Both write by key alone. Operation 1 on key k is persisted and
// acknowledged by peers up to the threshold; operation 2 - a newer write of k - is persisted; then
// one more acknowledgement of operation 1 arrives (from a batch that was in flight). The recovery
// transform marks operation 1 recovered and the store replaces its entry for k - which by now is
// operation 2 - by it. Operation 2 has been sent to nobody and is no longer gossiped: the other
// nodes never learn the leaseholder's latest write of k.

import (
	"context"
	"testing"

	"github.com/synnaxlabs/x/change"
	xkv "github.com/synnaxlabs/x/kv"
	"github.com/synnaxlabs/x/version"
)

func TestVerifC06RecoveredOldOpEvictsNewer(t *testing.T) {
	ctx := context.Background()
	st := newStore()
	sink := newStoreSink(st).(*storeSink)
	rt := newGossipRecoveryTransform(Config{RecoveryThreshold: 1}).(*gossipRecoveryTransform)
	mk := func(v int64, value string) Operation {
		return Operation{
			Change:      xkv.Change{Key: []byte("k"), Value: []byte(value), Variant: change.VariantSet},
			Version:     version.Counter(v),
			Leaseholder: 1,
		}
	}
	op1, op2 := mk(1, "first"), mk(2, "second")
	gossiped := func() []Operation {
		s, release := st.PeekState()
		defer release()
		return s.toBatchRequest(ctx).Operations
	}
	acknowledge := func(op Operation) {
		out, ok, err := rt.transform(ctx, Digests{op.Digest()}.toRequest(ctx))
		if err != nil {
			t.Fatal(err)
		}
		if ok {
			if err := sink.Store(ctx, out); err != nil {
				t.Fatal(err)
			}
		}
	}
	// operation 1 is persisted and gossiped; two peers already have it
	_ = sink.Store(ctx, TxRequest{Operations: []Operation{op1}})
	acknowledge(op1)
	acknowledge(op1)
	// the leaseholder writes k again
	_ = sink.Store(ctx, TxRequest{Operations: []Operation{op2}})
	if g := gossiped(); len(g) != 1 || g[0].Version != op2.Version {
		t.Fatalf("after the second write the node should gossip operation 2, it gossips %v", g)
	}
	// an acknowledgement of operation 1 that was still in flight arrives
	acknowledge(op1)
	g := gossiped()
	if len(g) != 1 || g[0].Version != op2.Version {
		t.Fatalf("operation 2 (version %d of key k) has been sent to nobody, yet after a late acknowledgement of operation 1 "+
			"the node gossips %d operation(s): %v", op2.Version, len(g), g)
	}
}
