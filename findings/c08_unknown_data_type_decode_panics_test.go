package codec_test

import (
	"context"
	"testing"

	"github.com/onsi/gomega"

	"github.com/synnaxlabs/synnax/pkg/distribution/channel"
	"github.com/synnaxlabs/synnax/pkg/distribution/framer/codec"
	"github.com/synnaxlabs/synnax/pkg/distribution/framer/frame"
	"github.com/synnaxlabs/synnax/pkg/distribution/mock"
	"github.com/synnaxlabs/x/telem"
)

func TestVerifC08UnknownDataType(t *testing.T) {
	ctx := context.Background()
	gomega.RegisterTestingT(t)
	cl := mock.ProvisionCluster(ctx, 1)
	defer func() { _ = cl.Close() }()
	n := cl.Nodes[1]
	ch := channel.Channel{Name: "verif_odd_type", DataType: telem.DataType("foo"), Virtual: true, Leaseholder: 1}
	err := n.Channel.Create(ctx, &ch)
	t.Logf("creating a channel of data type %q: err=%v key=%v", ch.DataType, err, ch.Key())
	if err != nil {
		return
	}
	ok := channel.Channel{Name: "verif_ok_type", DataType: telem.Float32T, Virtual: true, Leaseholder: 1}
	if err := n.Channel.Create(ctx, &ok); err != nil {
		t.Fatal(err)
	}
	// sender: a codec over the ordinary channel only; receiver: a codec negotiated over both
	enc := codec.NewStatic(channel.Keys{ok.Key()}, []telem.DataType{telem.Float32T})
	b, err := enc.Encode(ctx, frame.NewUnary(ok.Key(), telem.NewSeriesV[float32](1, 2, 3)))
	if err != nil {
		t.Fatal(err)
	}
	dec := codec.NewDynamic(n.Channel)
	if err := dec.Update(ctx, channel.Keys{ok.Key(), ch.Key()}); err != nil {
		t.Fatalf("update: %v", err)
	}
	// flip "all channels present" on so that the decoder walks its own key list
	defer func() {
		if r := recover(); r != nil {
			t.Fatalf("Decode panicked: %v", r)
		}
	}()
	for flags := 0; flags < 256; flags++ {
		msg := append([]byte{}, b...)
		msg[0] = byte(flags)
		_, _ = dec.Decode(msg)
	}
}
