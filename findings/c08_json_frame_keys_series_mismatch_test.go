package telem_test

// Demonstration for the C08 finding "a frame decoded from JSON or msgpack may have more keys than
// series" (copy into /repo/x/go/telem and run `go test -vet=off -run TestVerifC08FrameShape ./telem/`).
//
// The WebSocket writer/streamer/iterator endpoints decode their control messages - which may carry a
// frame - with the JSON codec (core/pkg/transport/http/framer/codec.go lowPerfDecode). Frame's
// decoders copy the two arrays without comparing their lengths, and every consumer indexes the
// series by the key's position: the writer's validator (RawSeriesAt(rawI) for rawI over RawKeys)
// panics with "index out of range" on such a frame. Decoding bytes from the network has to return
// a frame or an error.

import (
	"encoding/json"
	"testing"

	"github.com/synnaxlabs/x/telem"
)

func TestVerifC08FrameShape(t *testing.T) {
	var fr telem.Frame[uint32]
	err := json.Unmarshal([]byte(`{"keys":[1,2],"series":[{"data_type":"float32","data":"AAAAAA=="}]}`), &fr)
	if err != nil {
		t.Logf("refused: %v", err)
		return
	}
	defer func() {
		if r := recover(); r != nil {
			t.Fatalf("the decoder accepted 2 keys with 1 series, and walking the frame the way the writer's validator does panics: %v", r)
		}
	}()
	for i := range fr.RawKeys() {
		_ = fr.RawSeriesAt(i)
	}
	t.Fatalf("the decoder accepted a frame with %d keys and %d series", len(fr.RawKeys()), len(fr.RawSeries()))
}
