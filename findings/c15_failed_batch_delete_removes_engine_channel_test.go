package channel_test

// Demonstration for the C15 finding "a delete batch that the engine refuses half way leaves the
// metadata and the engine disagreeing" (copy into /repo/core/pkg/distribution/channel and run
// `go test -vet=off -run TestVerifC15FailedBatchDelete ./pkg/distribution/channel/`).
//
// An index channel indexes the data channels d1 and d2. Deleting [d1, index] inside a transaction -
// the way the API does it - has to be refused as a whole, because the index still indexes d2. The
// engine's DeleteChannels removed d1 first and refused the index afterwards; the transaction is
// rolled back, so the metadata keeps d1, whose engine channel is gone.

import (
	"context"
	"testing"

	"github.com/onsi/gomega"
	"github.com/synnaxlabs/synnax/pkg/distribution/channel"
	"github.com/synnaxlabs/synnax/pkg/distribution/mock"
	"github.com/synnaxlabs/x/gorp"
	"github.com/synnaxlabs/x/telem"
)

func TestVerifC15FailedBatchDelete(t *testing.T) {
	gomega.RegisterTestingT(t)
	ctx := context.Background()
	cl := mock.ProvisionCluster(ctx, 1)
	defer func() { _ = cl.Close() }()
	n := cl.Nodes[1]
	idx := channel.Channel{Name: "verif_idx", DataType: telem.TimeStampT, IsIndex: true, Leaseholder: 1}
	if err := n.Channel.NewWriter(nil).Create(ctx, &idx); err != nil {
		t.Fatal(err)
	}
	d1 := channel.Channel{Name: "verif_d1", DataType: telem.Float32T, LocalIndex: idx.LocalKey, Leaseholder: 1}
	d2 := channel.Channel{Name: "verif_d2", DataType: telem.Float32T, LocalIndex: idx.LocalKey, Leaseholder: 1}
	for _, ch := range []*channel.Channel{&d1, &d2} {
		if err := n.Channel.NewWriter(nil).Create(ctx, ch); err != nil {
			t.Fatal(err)
		}
	}
	err := n.DB.WithTx(ctx, func(tx gorp.Tx) error {
		return n.Channel.NewWriter(tx).DeleteMany(ctx, []channel.Key{d1.Key(), idx.Key()}, false)
	})
	if err == nil {
		t.Fatal("deleting an index channel that still indexes another channel was accepted")
	}
	t.Logf("delete refused: %v", err)
	for _, ch := range []channel.Channel{d1, idx, d2} {
		var meta []channel.Channel
		_ = n.Channel.NewRetrieve().Entries(&meta).Where(channel.MatchKeys(ch.Key())).Exec(ctx, nil)
		_, tErr := n.Storage.TS.RetrieveChannel(ctx, ch.Key().StorageKey())
		if (len(meta) == 1) != (tErr == nil) {
			t.Errorf("after the refused delete, %s: in metadata=%v, in engine=%v", ch.Name, len(meta) == 1, tErr == nil)
		}
	}
}
