package store_test

// Demonstration for the C12 finding "store.Merge / SetNode are unsynchronised read-modify-write
// sequences: a concurrent exchange overwrites a newer heartbeat with an older one" (copy into
// /repo/aspen/internal/cluster/store and run
// `go test -vet=off -run TestVerifC12ConcurrentMergeRegresses ./internal/cluster/store/`).
//
// Two gossip exchanges are merged into one node's store at the same time, as the gossip server
// does when two peers talk to it at once (each incoming message is handled on its own goroutine):
// one stream of exchanges only ever carries newer and newer heartbeats of member 2, the other one
// of member 3. After an exchange that delivered heartbeat v of member 2 has returned, the store's
// record of member 2 must never be older than v again.

import (
	"context"
	"sync"
	"testing"

	"github.com/synnaxlabs/aspen/internal/cluster/store"
	"github.com/synnaxlabs/aspen/internal/node"
	"github.com/synnaxlabs/x/version"
)

func TestVerifC12ConcurrentMergeRegresses(t *testing.T) {
	ctx := context.Background()
	s := store.New(ctx)
	s.SetHost(ctx, node.Node{Key: 1})
	const n = 20000
	var wg sync.WaitGroup
	regressions := 0
	var first [2]uint32
	wg.Add(2)
	go func() {
		defer wg.Done()
		seen := uint32(0)
		for v := uint32(1); v <= n; v++ {
			// what the store holds now must not be older than what an earlier exchange delivered
			if cur, _ := s.GetNode(2); cur.Heartbeat.Version < seen {
				if regressions == 0 {
					first = [2]uint32{seen, cur.Heartbeat.Version}
				}
				regressions++
			}
			s.Merge(ctx, node.Group{2: {Key: 2, Heartbeat: version.Heartbeat{Version: v}}})
			seen = v
		}
	}()
	go func() {
		defer wg.Done()
		for v := uint32(1); v <= n; v++ {
			s.Merge(ctx, node.Group{3: {Key: 3, Heartbeat: version.Heartbeat{Version: v}}})
		}
	}()
	wg.Wait()
	if regressions > 0 {
		t.Fatalf("member 2's recorded heartbeat went backwards %d times in %d exchanges "+
			"(first: heartbeat %d had been merged, the store then held %d)", regressions, n, first[0], first[1])
	}
	if cur, _ := s.GetNode(2); cur.Heartbeat.Version != n {
		t.Fatalf("after the last exchange member 2's heartbeat is %d, not %d", cur.Heartbeat.Version, n)
	}
}
