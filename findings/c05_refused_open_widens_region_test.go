package control_test

// Demonstration for the C05 finding "a refused gate still widens the region" (copy into
// /repo/cesium/internal/control and run
// `go test -vet=off -run TestVerifC05RefusedOpenWidensRegion ./internal/control/`).

import (
	"testing"

	"github.com/synnaxlabs/cesium/internal/channel"
	"github.com/synnaxlabs/cesium/internal/control"
	xcontrol "github.com/synnaxlabs/x/control"
	"github.com/synnaxlabs/x/telem"
)

type verifRes2 struct{ key channel.Key }

func (r *verifRes2) ChannelKey() channel.Key { return r.key }

func verifGate2(tr telem.TimeRange, name string, auth xcontrol.Authority, errOnUnauthorized bool) control.GateConfig[*verifRes2] {
	f := false
	return control.GateConfig[*verifRes2]{
		TimeRange: tr, Authority: auth, Subject: xcontrol.Subject{Key: name, Name: name},
		ErrIfControlled: &f, ErrOnUnauthorizedOpen: &errOnUnauthorized,
		OpenResource: func() (*verifRes2, error) { return &verifRes2{key: 1}, nil },
	}
}

func TestVerifC05RefusedOpenWidensRegion(t *testing.T) {
	c, err := control.New[*verifRes2](control.Config{Concurrency: xcontrol.ConcurrencyExclusive})
	if err != nil {
		t.Fatal(err)
	}
	s := telem.SecondTS
	// A controls [0s, 10s) with the highest authority
	if _, _, err = c.OpenGate(verifGate2((0 * s).Range(10*s), "a", xcontrol.AuthorityAbsolute, false)); err != nil {
		t.Fatal(err)
	}
	// B asks for [5s, 100s) and wants an error if it would not be in control: refused
	if g, _, berr := c.OpenGate(verifGate2((5 * s).Range(100*s), "b", 1, true)); berr == nil || g != nil {
		t.Fatalf("expected b to be refused, got gate=%v err=%v", g, berr)
	}
	// C writes [50s, 60s), which nobody controls: it must get control of its own region
	cg, _, err := c.OpenGate(verifGate2((50 * s).Range(60*s), "c", 1, false))
	if err != nil {
		t.Fatal(err)
	}
	if _, cerr := cg.Authorize(); cerr != nil {
		t.Errorf("nobody holds [50s,60s) (b's request was refused), yet c is not in control: %v", cerr)
	}
}
