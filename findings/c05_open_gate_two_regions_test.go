package control_test

// Demonstration for the C05 finding "OpenGate leaves a gate behind when the range overlaps two
// regions" (copy into /repo/cesium/internal/control and run
// `go test -vet=off -run TestVerifC05OpenGateAcrossTwoRegions ./internal/control/`).

import (
	"testing"

	"github.com/synnaxlabs/cesium/internal/channel"
	"github.com/synnaxlabs/cesium/internal/control"
	xcontrol "github.com/synnaxlabs/x/control"
	"github.com/synnaxlabs/x/telem"
)

type verifRes struct{ key channel.Key }

func (r *verifRes) ChannelKey() channel.Key { return r.key }

func verifGate(tr telem.TimeRange, name string, auth xcontrol.Authority) control.GateConfig[*verifRes] {
	f := false
	return control.GateConfig[*verifRes]{
		TimeRange: tr, Authority: auth, Subject: xcontrol.Subject{Key: name, Name: name},
		ErrIfControlled: &f, ErrOnUnauthorizedOpen: &f,
		OpenResource: func() (*verifRes, error) { return &verifRes{key: 1}, nil },
	}
}

func TestVerifC05OpenGateAcrossTwoRegions(t *testing.T) {
	c, err := control.New[*verifRes](control.Config{Concurrency: xcontrol.ConcurrencyExclusive})
	if err != nil {
		t.Fatal(err)
	}
	s := telem.SecondTS
	// two independent regions, e.g. two bounded operations on disjoint time ranges
	a, _, err := c.OpenGate(verifGate((0 * s).Range(10*s), "a", 1))
	if err != nil {
		t.Fatal(err)
	}
	b, _, err := c.OpenGate(verifGate((20 * s).Range(30*s), "b", 1))
	if err != nil {
		t.Fatal(err)
	}
	// a request whose range overlaps both is refused ...
	g, _, err := c.OpenGate(verifGate((5 * s).Range(25*s), "w", xcontrol.AuthorityAbsolute))
	if err == nil || g != nil {
		t.Fatalf("expected the two-region request to be refused, got gate=%v err=%v", g, err)
	}
	t.Logf("refused as expected: %v", err)
	// ... and must not have changed who controls what: a still controls [0,10)
	if _, aerr := a.Authorize(); aerr != nil {
		t.Errorf("after the refused request, gate a (the only open gate on [0s,10s)) is no longer authorized: %v", aerr)
	}
	a.Release()
	b.Release()
	// with everything released, a fresh low-authority writer on [0s,5s) must be in control
	n, _, err := c.OpenGate(verifGate((0 * s).Range(5*s), "n", 1))
	if err != nil {
		t.Fatalf("open after release: %v", err)
	}
	if _, nerr := n.Authorize(); nerr != nil {
		t.Errorf("all gates were released, yet a new writer on [0s,5s) is not in control: %v", nerr)
	}
}
