package writer_test

// Demonstration for the C07/C05 finding "a writer open that fails on the gateway leaves the writers it
// already opened on peer nodes open" (copy into /repo/core/pkg/distribution/framer/writer and run
// `go test -vet=off -run TestVerifC07FailedOpenLeaksPeerWriters ./pkg/distribution/framer/writer/`).
//
// Channel A is leased to node 1, channel B to node 2. A holds data in [10 s, 20 s]. A writer asks,
// through node 1, for [A, B] starting at 15 s with authority 200: NewStream opens the peer writers
// first (B on node 2: granted), then the gateway writer (A: refused, the start lies inside existing
// data) and returns the error - without closing the peer streams it has opened. The open failed, so the
// caller holds no writer; yet on node 2 a writer with authority 200 keeps controlling B. A third
// writer asking for B alone with authority 100 and ErrOnUnauthorized must be granted.

import (
	"context"
	"testing"
	"time"

	"github.com/onsi/gomega"
	"github.com/synnaxlabs/synnax/pkg/distribution/channel"
	"github.com/synnaxlabs/synnax/pkg/distribution/framer/frame"
	"github.com/synnaxlabs/synnax/pkg/distribution/framer/writer"
	"github.com/synnaxlabs/synnax/pkg/distribution/mock"
	"github.com/synnaxlabs/x/control"
	"github.com/synnaxlabs/x/telem"
)

func TestVerifC07FailedOpenLeaksPeerWriters(t *testing.T) {
	g := gomega.NewWithT(t)
	gomega.RegisterTestingT(t)
	ctx := context.Background()
	cl := mock.ProvisionCluster(ctx, 2)
	defer func() { _ = cl.Close() }()
	n1 := cl.Nodes[1]
	chs := []channel.Channel{
		{Name: "verif_a", IsIndex: true, DataType: telem.TimeStampT, Leaseholder: 1},
		{Name: "verif_b", IsIndex: true, DataType: telem.TimeStampT, Leaseholder: 2},
	}
	g.Expect(n1.Channel.NewWriter(nil).CreateMany(ctx, &chs)).To(gomega.Succeed())
	keys := channel.KeysFromChannels(chs)
	g.Eventually(func(g gomega.Gomega) {
		var res []channel.Channel
		g.Expect(cl.Nodes[2].Channel.NewRetrieve().Entries(&res).Where(channel.MatchKeys(keys...)).Exec(ctx, nil)).To(gomega.Succeed())
		g.Expect(res).To(gomega.HaveLen(2))
	}).Should(gomega.Succeed())
	var a, b channel.Key
	for _, k := range keys {
		if k.Leaseholder() == 1 {
			a = k
		} else {
			b = k
		}
	}

	// channel A gets data in [10 s, 20 s]
	first, err := n1.Framer.OpenWriter(ctx, writer.Config{Keys: channel.Keys{a}, Start: 10 * telem.SecondTS, Sync: new(true)})
	g.Expect(err).ToNot(gomega.HaveOccurred())
	_, err = first.Write(frame.NewUnary(a, telem.NewSeriesSecondsTSV(10, 15, 20)))
	g.Expect(err).ToNot(gomega.HaveOccurred())
	_, err = first.Commit()
	g.Expect(err).ToNot(gomega.HaveOccurred())
	g.Expect(first.Close()).To(gomega.Succeed())

	// a writer starting inside that data cannot be opened on A: the open over [A, B] has to fail
	_, err = n1.Framer.OpenWriter(ctx, writer.Config{
		Keys: channel.Keys{a, b}, Start: 15 * telem.SecondTS,
		Authorities: []control.Authority{200}, ControlSubject: control.Subject{Key: "refused"},
	})
	if err == nil {
		t.Fatal("the open over [A, B] did not fail")
	}
	t.Logf("second open failed: %v", err)

	// the peer opens its writer when the request reaches it; give it a moment, then ask for B with a
	// lower authority: nobody legitimately holds B, so the open must be granted
	time.Sleep(300 * time.Millisecond)
	var lastErr error
	deadline := time.Now().Add(2 * time.Second)
	for time.Now().Before(deadline) {
		third, err := cl.Nodes[2].Framer.OpenWriter(ctx, writer.Config{ // on B's own node: its refusal is synchronous
			Keys: channel.Keys{b}, Start: 15 * telem.SecondTS,
			Authorities: []control.Authority{100}, ControlSubject: control.Subject{Key: "third"},
			ErrOnUnauthorized: new(true),
		})
		if err == nil {
			_ = third.Close()
			return
		}
		lastErr = err
		time.Sleep(50 * time.Millisecond)
	}
	t.Fatalf("two seconds after the failed open, channel B is still controlled by the writer of the open that failed: %v", lastErr)
}
