#!/bin/bash
# Runs findings/c09_concurrent_commits_stale_index_persist_test.go against /repo's cesium with an
# overlay that adds one call - verifPause(), a no-op standing for a preemption - to index.insert
# between releasing the index lock and running the persist closure. Nothing is written to /repo.
set -e
d=$(mktemp -d /dev/shm/c09demo-XXXX); trap 'rm -rf $d' EXIT
perl -0pe 's/(\tpersistPointers := idx\.indexPersist\.prepare\(idx\.persistHead\)\n\tidx\.mu\.Unlock\(\)\n)(\treturn persistPointers\(\)\n\}\n\nfunc \(idx \*index\) overlap)/$1\tverifPause()\n$2/' /repo/cesium/internal/domain/index.go > $d/index.go
cmp -s $d/index.go /repo/cesium/internal/domain/index.go && { echo "could not place the pause in index.insert"; exit 2; }
printf 'package domain\n\nvar verifPause = func() {}\n' > $d/hook.go
cat > $d/ov.json <<J
{"Replace":{"/repo/cesium/internal/domain/index.go":"$d/index.go","/repo/cesium/internal/domain/zz_verif_pause.go":"$d/hook.go","/repo/cesium/internal/domain/zz_c09_demo_test.go":"/verif/findings/c09_concurrent_commits_stale_index_persist_test.go"}}
J
cd /repo/cesium && GOFLAGS=-mod=mod go test -overlay $d/ov.json -vet=off -count=1 -timeout 120s -run TestVerifC09StaleIndexPersist -v ./internal/domain/
