package cesium_test

// Demonstration for the C05 finding "a refused open on a virtual channel panics instead of
// returning the refusal" (copy into /repo/cesium and run
// `go test -vet=off -run TestVerifC05RefusedVirtualOpenPanics .`).
//
// Writer 1 holds virtual channel 2 with absolute authority. Writer 2 asks for channels 1 and 2 with
// a lower authority and ErrOnUnauthorized: the open of channel 2 is refused and NewStreamWriter
// has to fail with that error, leaving channel 1 free again. newStreamWriter stores the result of
// virtual.DB.OpenWriter in its map before looking at the error - a nil writer on a refusal - and
// the deferred clean-up then calls Close on it.

import (
	"context"
	"testing"

	"github.com/synnaxlabs/cesium"
	"github.com/synnaxlabs/x/control"
	xfs "github.com/synnaxlabs/x/io/fs"
	"github.com/synnaxlabs/x/telem"
)

func TestVerifC05RefusedVirtualOpenPanics(t *testing.T) {
	ctx := context.Background()
	db, err := cesium.Open(ctx, "", cesium.WithFS(xfs.NewMem()))
	if err != nil {
		t.Fatal(err)
	}
	defer func() { _ = db.Close() }()
	for _, k := range []cesium.ChannelKey{1, 2} {
		if err := db.CreateChannel(ctx, cesium.Channel{Key: k, Name: "v", DataType: telem.Float32T, Virtual: true}); err != nil {
			t.Fatal(err)
		}
	}
	w1, err := db.OpenWriter(ctx, cesium.WriterConfig{
		Channels:       []cesium.ChannelKey{2},
		Start:          10 * telem.SecondTS,
		Authorities:    []control.Authority{control.AuthorityAbsolute},
		ControlSubject: control.Subject{Key: "holder"},
	})
	if err != nil {
		t.Fatal(err)
	}
	defer func() { _ = w1.Close() }()
	defer func() {
		if r := recover(); r != nil {
			t.Fatalf("opening a writer that has to be refused panicked: %v", r)
		}
	}()
	w2, err := db.OpenWriter(ctx, cesium.WriterConfig{
		Channels:          []cesium.ChannelKey{1, 2},
		Start:             10 * telem.SecondTS,
		Authorities:       []control.Authority{control.AuthorityAbsolute - 1},
		ControlSubject:    control.Subject{Key: "late"},
		ErrOnUnauthorized: new(true),
	})
	if err == nil {
		_ = w2.Close()
		t.Fatal("the open was not refused")
	}
	t.Logf("refused with: %v", err)
	// channel 1 must be free again: a third writer gets it
	w3, err := db.OpenWriter(ctx, cesium.WriterConfig{
		Channels:          []cesium.ChannelKey{1},
		Start:             10 * telem.SecondTS,
		Authorities:       []control.Authority{1},
		ControlSubject:    control.Subject{Key: "third"},
		ErrOnUnauthorized: new(true),
	})
	if err != nil {
		t.Fatalf("after the refused open channel 1 is still held: %v", err)
	}
	_ = w3.Close()
}
