#!/bin/bash
# usage: scripts_mut.sh <file-rel-to-repo> <sed-expr> <govc func args...>
f=$1; shift; e=$1; shift
cp /repo/$f /tmp/mut_backup.$$ 
sed -i "$e" /repo/$f
if cmp -s /repo/$f /tmp/mut_backup.$$; then echo "MUTATION DID NOT APPLY"; fi
(cd /repo && git diff --stat -- $f | tail -1)
/verif/bin/govc "$@" 2>&1 | grep -v "^loaded" | cut -c1-220 | tail -6
cp /tmp/mut_backup.$$ /repo/$f; rm /tmp/mut_backup.$$
