package main

import (
	"fmt"
	"go/ast"
	"go/token"
	"go/types"
	"sort"
	"strings"

	"golang.org/x/tools/go/packages"
)

// ignoredPkgs: calls into these packages have no effect on modelled state
// (tracing, logging, formatting). Results are arbitrary values.
var ignoredPkgPrefixes = []string{
	"github.com/synnaxlabs/alamos",
	"go.uber.org/zap",
	"log",
	"runtime/debug",
}

var ignoredFuncs = map[string]bool{
	"fmt.Sprintf": true, "fmt.Sprint": true, "fmt.Errorf": false, "fmt.Println": true, "fmt.Printf": true,
	"sync.Mutex.Lock": true, "sync.Mutex.Unlock": true, "sync.RWMutex.Lock": true, "sync.RWMutex.Unlock": true,
	"sync.RWMutex.RLock": true, "sync.RWMutex.RUnlock": true, "sync.Mutex.TryLock": true,
	"sync.WaitGroup.Add": true, "sync.WaitGroup.Done": true,
	"sync/atomic.Int64.Add": true, "sync/atomic.Int64.Store": true, "sync/atomic.Int32.Add": true, "sync/atomic.Bool.Store": true,
	"sync/atomic.Uint64.Add": true, "sync/atomic.Uint32.Add": true,
	"context.Background": true, "context.TODO": true, "context.Context.Done": true,
	"time.Now": true, ".error.Error": true, "strconv.Itoa": true,
}

func (fv *FuncVerifier) calleeOf(call *ast.CallExpr) types.Object {
	info := fv.info()
	switch f := ast.Unparen(call.Fun).(type) {
	case *ast.Ident:
		return info.Uses[f]
	case *ast.SelectorExpr:
		return info.Uses[f.Sel]
	case *ast.IndexExpr: // generic instantiation f[T](...)
		switch g := f.X.(type) {
		case *ast.Ident:
			return info.Uses[g]
		case *ast.SelectorExpr:
			return info.Uses[g.Sel]
		}
	case *ast.IndexListExpr:
		switch g := f.X.(type) {
		case *ast.Ident:
			return info.Uses[g]
		case *ast.SelectorExpr:
			return info.Uses[g.Sel]
		}
	}
	return nil
}

func isIgnoredKey(key string) bool {
	if ignoredFuncs[key] {
		return true
	}
	for _, p := range ignoredPkgPrefixes {
		if strings.HasPrefix(key, p+".") || strings.HasPrefix(key, p+"/") {
			return true
		}
	}
	return false
}

func (fv *FuncVerifier) isIgnoredCall(call *ast.CallExpr) bool {
	obj := fv.calleeOf(call)
	fn, ok := obj.(*types.Func)
	if !ok {
		return false
	}
	key := funcKey(fn)
	if sp := fv.prog.specs[key]; sp != nil {
		return sp.Kind == SKIgnore
	}
	return isIgnoredKey(key)
}

// callIsHeapPure: the call cannot write any heap (used by loop havoc).
func (fv *FuncVerifier) callIsHeapPure(call *ast.CallExpr) bool {
	info := fv.info()
	if tv, ok := info.Types[call.Fun]; ok && tv.IsType() {
		return true
	}
	obj := fv.calleeOf(call)
	switch o := obj.(type) {
	case *types.Builtin:
		return o.Name() != "delete" && o.Name() != "clear"
	case *types.Func:
		key := funcKey(o)
		if sp := fv.prog.specs[key]; sp != nil {
			switch sp.Kind {
			case SKPure, SKSpecFunc, SKIgnore:
				return true
			case SKContract, SKTrusted:
				return len(sp.Modifies) == 0 && !sp.ModAll
			}
			return false
		}
		if isIgnoredKey(key) {
			return true
		}
		if _, ok := builtinModels[key]; ok {
			return true
		}
	}
	return false
}

func (fv *FuncVerifier) hasEffects(e ast.Expr) bool {
	eff := false
	ast.Inspect(e, func(n ast.Node) bool {
		if c, ok := n.(*ast.CallExpr); ok {
			if !fv.callIsPure(c) {
				eff = true
			}
		}
		return !eff
	})
	return eff
}

// callsContracted: e contains a call of a function that has a (non-pure, non-ignore) contract or
// that an atcall clause of the verified function refers to.
func (fv *FuncVerifier) callsContracted(e ast.Expr) bool {
	found := false
	ast.Inspect(e, func(n ast.Node) bool {
		if _, ok := n.(*ast.FuncLit); ok {
			return false
		}
		if c, ok := n.(*ast.CallExpr); ok {
			if fn, ok := fv.calleeOf(c).(*types.Func); ok {
				if sp := fv.prog.specs[funcKey(fn)]; sp != nil && (sp.Kind == SKContract || sp.Kind == SKTrusted || sp.Kind == SKInline) {
					found = true
				}
				if len(fv.spec.AtCalls[fn.Name()]) > 0 {
					found = true
				}
			}
		}
		return !found
	})
	return found
}

func (fv *FuncVerifier) isPureExpr(e ast.Expr) bool { return !fv.hasEffects(e) }

func (fv *FuncVerifier) callIsPure(call *ast.CallExpr) bool {
	info := fv.info()
	if tv, ok := info.Types[call.Fun]; ok && tv.IsType() {
		return true
	}
	switch o := fv.calleeOf(call).(type) {
	case *types.Builtin:
		switch o.Name() {
		case "len", "cap", "min", "max":
			return true
		}
		return false
	case *types.Func:
		key := funcKey(o)
		if sp := fv.prog.specs[key]; sp != nil {
			return sp.Kind == SKPure || sp.Kind == SKSpecFunc
		}
		if m, ok := builtinModels[key]; ok {
			return m.pure
		}
	}
	return false
}

// ---------------------------------------------------------------- evalCall

func (fv *FuncVerifier) evalCall(call *ast.CallExpr, st *State, stmt bool) []Term {
	info := fv.info()
	// conversion
	if tv, ok := info.Types[call.Fun]; ok && tv.IsType() {
		if len(call.Args) != 1 {
			reject("conversion arity")
		}
		to := fv.subst(tv.Type)
		if atv, ok := info.Types[call.Args[0]]; ok && atv.Value != nil {
			if c, ok := fv.constTerm(atv.Value, to); ok {
				return []Term{c}
			}
		}
		x := fv.eval(call.Args[0], st)
		return []Term{fv.convert(x, fv.typeOf(call.Args[0]), to, st, call.Pos())}
	}
	// immediately invoked literal
	if lit, ok := ast.Unparen(call.Fun).(*ast.FuncLit); ok {
		var args []Term
		for _, a := range call.Args {
			args = append(args, fv.eval(a, st))
		}
		return fv.runClosureBody(lit, fv.frame(), args, st)
	}
	obj := fv.calleeOf(call)
	switch o := obj.(type) {
	case *types.Builtin:
		return fv.evalBuiltin(o.Name(), call, st)
	case *types.Var:
		if yc, ok := fv.yields[o]; ok {
			var args []Term
			for _, a := range call.Args {
				args = append(args, fv.eval(a, st))
			}
			return fv.callYield(yc, args, st)
		}
		if fc, ok := fv.funcChoices[o]; ok {
			return fv.callFuncChoice(fc, call, st)
		}
		if cl, ok := fv.closures[o]; ok {
			var args []Term
			for _, a := range call.Args {
				args = append(args, fv.eval(a, st))
			}
			return fv.runClosureBody(cl.lit, cl.fr, args, st)
		}
		if _, ok := fv.spec.Pragmas["opaque_func_values"]; ok {
			fv.u.note("call of function value %s treated as having no effect on modelled state, arbitrary results", o.Name())
			res := fv.havocResults(fv.typeOf(call), st)
			fv.funcValueView(o, call, res, st)
			return res
		}
		reject("call of function value %s at %s", o.Name(), fv.pos(call.Pos()))
	case *types.Func:
		return fv.evalFuncCall(o, call, st)
	case nil:
		// call of a call result etc.
		if _, ok := fv.spec.Pragmas["opaque_func_values"]; ok {
			fv.u.note("call of computed function value treated as having no effect on modelled state, arbitrary results")
			return fv.havocResults(fv.typeOf(call), st)
		}
	}
	reject("unsupported call at %s", fv.pos(call.Pos()))
	return nil
}

// funcValueView: `pragma func_value_view Field=SpecFn ...` names the result of calling the
// function-valued field x.Field() (no arguments, one result): it is assumed equal to the
// uninterpreted specification function SpecFn(x), so that a postcondition can speak about what
// the function value returned. The assumption made is that the function value is deterministic
// for the duration of the verified call (listed with the assumptions).
func (fv *FuncVerifier) funcValueView(o *types.Var, call *ast.CallExpr, res []Term, st *State) {
	pv, ok := fv.spec.Pragmas["func_value_view"]
	if !ok || len(call.Args) != 0 || len(res) != 1 || res[0].Sort == nil {
		return
	}
	se, isSel := ast.Unparen(call.Fun).(*ast.SelectorExpr)
	if o.IsField() != isSel {
		return
	}
	for _, kv := range strings.Fields(pv) {
		f := strings.SplitN(kv, "=", 2)
		if len(f) != 2 || f[0] != o.Name() {
			continue
		}
		key := fv.spec.PkgPath + "." + f[1]
		ssp, sfd := fv.prog.specs[key], fv.prog.decls[key]
		if ssp == nil || sfd == nil || ssp.Kind != SKSpecFunc || ssp.Body != "" {
			reject("pragma func_value_view: %s is not an uninterpreted specification function", key)
		}
		// a field x.F(): SpecFn(x); a local function variable f(): the nullary SpecFn()
		var vargs []Term
		if isSel {
			vargs = []Term{fv.eval(se.X, st)}
		}
		view := fv.pureApp(sfd.fn, ssp, vargs, st, call.Pos())
		if len(view) != 1 || view[0].Sort == nil || view[0].Sort.Name != res[0].Sort.Name {
			reject("pragma func_value_view: %s does not have the result type of %s", key, o.Name())
		}
		st.assume(eq(res[0], view[0]))
		fv.u.note("result of function value %s assumed equal to %s(receiver): deterministic for the duration of the call", o.Name(), f[1])
	}
}

func (fv *FuncVerifier) havocResults(t types.Type, st *State) []Term {
	var out []Term
	add := func(t types.Type) {
		s := fv.sortOf(t)
		if s == nil {
			out = append(out, Term{})
			return
		}
		if fv.specMode > 0 || fv.termMode {
			reject("effectful call in specification (result type %s)", t)
		}
		v := fv.u.freshConst("r", s)
		fv.assumeTyped(st, v, t)
		out = append(out, v)
	}
	if tup, ok := t.(*types.Tuple); ok {
		for i := 0; i < tup.Len(); i++ {
			add(tup.At(i).Type())
		}
		return out
	}
	if t == nil {
		return nil
	}
	add(t)
	return out
}

// receiverAndArgs evaluates the receiver (if any) and arguments of a call to fn.
// writeBack, when non-nil, must be called after the call to copy a temporary
// receiver object back into the addressable value it was taken from.
func (fv *FuncVerifier) receiverAndArgs(fn *types.Func, call *ast.CallExpr, st *State) (args []Term, writeBack func(st *State)) {
	info := fv.info()
	sig := fn.Type().(*types.Signature)
	if sig.Recv() != nil {
		se, ok := ast.Unparen(call.Fun).(*ast.SelectorExpr)
		if !ok {
			reject("method call shape at %s", fv.pos(call.Pos()))
		}
		sel := info.Selections[se]
		if sel == nil {
			reject("method expression at %s", fv.pos(call.Pos()))
		}
		cur := Term{}
		curT := fv.subst(sel.Recv())
		var curExpr ast.Expr = se.X
		addressable := true
		unmodelled := false
		func() {
			defer func(nframes int) {
				if r := recover(); r != nil {
					fv.frames = fv.frames[:nframes] // an unsupported construct met inside nested inlined calls: drop their frames
					if _, ok := r.(unsupported); ok {
						unmodelled = true
						return
					}
					panic(r)
				}
			}(len(fv.frames))
			cur = fv.eval(se.X, st)
		}()
		if unmodelled || cur.Sort == nil {
			args = append(args, Term{})
		} else {
			// implicit field path to an embedded receiver
			idx := sel.Index()
			for _, i := range idx[:len(idx)-1] {
				if p, ok := curT.Underlying().(*types.Pointer); ok {
					cur = fv.deref(cur, st, call.Pos())
					curT = p.Elem()
				}
				stt := curT.Underlying().(*types.Struct)
				f, ok := fv.u.getField(cur, stt.Field(i).Name())
				if !ok {
					reject("embedded receiver through unmodelled field at %s", fv.pos(call.Pos()))
				}
				cur = f
				curT = fv.subst(stt.Field(i).Type())
				curExpr = nil
				addressable = false
			}
			_, recvIsPtr := sig.Recv().Type().Underlying().(*types.Pointer)
			_, haveIsPtr := curT.Underlying().(*types.Pointer)
			if _, isIface := curT.Underlying().(*types.Interface); isIface {
				recvIsPtr, haveIsPtr = false, false
			}
			switch {
			case recvIsPtr && !haveIsPtr:
				// addressable value: temporary object, copied back afterwards
				if curExpr == nil || !addressable {
					if stt, ok := curT.Underlying().(*types.Struct); ok && stt.NumFields() == 0 {
						// a stateless embedded value (no fields): nothing to copy back
						cur = fv.alloc(cur, st)
						break
					}
					reject("pointer-receiver call on embedded value at %s", fv.pos(call.Pos()))
				}
				tmp := fv.alloc(cur, st)
				target := curExpr
				writeBack = func(st *State) {
					fv.assign(target, sel2(fv.heap(st, tmp.Sort), tmp), st)
				}
				cur = tmp
			case !recvIsPtr && haveIsPtr:
				cur = fv.deref(cur, st, call.Pos())
			}
			args = append(args, cur)
		}
	}
	params := sig.Params()
	for i, a := range call.Args {
		var pt types.Type
		if sig.Variadic() && i >= params.Len()-1 {
			pt = params.At(params.Len() - 1).Type().(*types.Slice).Elem()
			if call.Ellipsis.IsValid() {
				pt = params.At(params.Len() - 1).Type()
			}
		} else if i < params.Len() {
			pt = params.At(i).Type()
		}
		if _, isLit := ast.Unparen(a).(*ast.FuncLit); isLit {
			args = append(args, Term{})
			continue
		}
		// &x for a local variable x: a temporary cell holds x for the duration of the call and
		// is copied back afterwards (the callee may write through the pointer; it must not keep it)
		if u, ok := ast.Unparen(a).(*ast.UnaryExpr); ok && u.Op == token.AND && fv.specMode == 0 && !fv.termMode {
			if id, ok := ast.Unparen(u.X).(*ast.Ident); ok {
				obj := info.Uses[id]
				if lv, isVar := obj.(*types.Var); isVar && !lv.IsField() && lv.Parent() != nil && (lv.Pkg() == nil || lv.Parent() != lv.Pkg().Scope()) {
					if cur, has := st.vars[lv]; has && cur.Sort != nil {
						tmp := fv.alloc(cur, st)
						prev := writeBack
						writeBack = func(st *State) {
							if prev != nil {
								prev(st)
							}
							st.vars[lv] = fv.def(lv.Name(), sel2(fv.heap(st, tmp.Sort), tmp))
						}
						fv.u.note("address of a local passed to a call: modelled as a temporary cell copied back after the call (the callee is assumed not to retain the pointer)")
						args = append(args, tmp)
						continue
					}
				}
			}
		}
		if pt != nil && fv.sortOf(pt) == nil {
			// unmodelled parameter (context, logger fields...): evaluate for effects only if needed
			if fv.hasEffects(a) {
				fv.eval(a, st)
			}
			args = append(args, Term{})
			continue
		}
		var v Term
		func() {
			defer func(nframes int) {
				if r := recover(); r != nil {
					fv.frames = fv.frames[:nframes] // an unsupported construct met inside nested inlined calls: drop their frames
					if u, ok := r.(unsupported); ok && pt != nil && isInterfaceButNotError(pt) {
						_ = u
						v = Term{}
						return
					}
					panic(r)
				}
			}(len(fv.frames))
			v = fv.evalTo(a, pt, st)
		}()
		args = append(args, v)
	}
	return
}

func isInterfaceButNotError(t types.Type) bool {
	_, ok := t.Underlying().(*types.Interface)
	return ok && !isErrorType(t)
}

func sel2(h Term, r Term) Term { return sel(h, r, r.Sort.Elem) }

func (fv *FuncVerifier) evalFuncCall(fn *types.Func, call *ast.CallExpr, st *State) []Term {
	savedCall := fv.curCall
	fv.curCall = call
	defer func() { fv.curCall = savedCall }()
	key := funcKey(fn)
	sig := fn.Type().(*types.Signature)
	if fv.specMode == 0 && !fv.termMode && (fv.frame().top || fv.frame().fd == fv.fd) && len(fv.spec.AtCalls[fn.Name()]) > 0 {
		fv.checkAtCall(fn, call, st)
	}
	// specification helpers
	if strings.HasPrefix(fn.Name(), "__") && fn.Pkg() != nil {
		return fv.evalSpecHelper(fn, call, st)
	}
	sp := fv.prog.specs[key]
	// pragma opaque_calls <names>: in this function, calls of the named functions of other packages
	// are taken as opaque (the package-level ignorepkg answer) even though a contract exists -
	// a contract written for one caller must not change how another caller is translated
	if sp != nil && fn.Pkg() != nil && fn.Pkg().Path() != fv.fd.pkg.PkgPath && fv.specMode == 0 {
		for _, n := range strings.FieldsFunc(fv.spec.Pragmas["opaque_calls"], func(r rune) bool { return r == ',' || r == ' ' }) {
			if n == fn.Name() {
				sp = nil
			}
		}
	}
	// a contract may be attached to a promoted method under the static receiver type
	// of the call (e.g. methods of an embedded interface): pkg.T.Method
	if alt, recvExpr := fv.staticRecvKey(fn, call); alt != "" && alt != key {
		if asp := fv.prog.specs[alt]; asp != nil && (asp.Kind == SKTrusted || asp.Kind == SKIgnore) {
			if asp.Kind == SKIgnore {
				return fv.havocResults(sig.Results(), st)
			}
			args := []Term{fv.eval(recvExpr, st)}
			for i, a := range call.Args {
				var pt types.Type
				if i < sig.Params().Len() {
					pt = sig.Params().At(i).Type()
				}
				if pt != nil && fv.sortOf(pt) == nil {
					args = append(args, Term{})
					continue
				}
				args = append(args, fv.evalTo(a, pt, st))
			}
			return fv.modularCall(fn, asp, args, st, call.Pos())
		}
	}
	if sp == nil {
		if key == "sort.Search" {
			return fv.sortSearch(call, st)
		}
		if key == "slices.BinarySearchFunc" {
			return fv.binarySearchFunc(call, st)
		}
		if key == "golang.org/x/sync/errgroup.Group.Go" || key == "golang.org/x/sync/errgroup.Group.Wait" {
			return fv.errgroupCall(fn, call, st)
		}
		if m, ok := builtinModels[key]; ok {
			args, wb := fv.receiverAndArgs(fn, call, st)
			r := m.fn(fv, call, args, st)
			if wb != nil {
				wb(st)
			}
			return r
		}
		if isIgnoredKey(key) {
			fv.u.note("ignored call %s (no effect on modelled state)", key)
			fv.evalReceiverChain(call, st)
			fv.runArgClosures(call, st)
			fv.havocAddressedLocals(call, st)
			for _, a := range call.Args {
				if fv.hasEffects(a) {
					fv.eval(a, st)
				}
			}
			return fv.havocResults(sig.Results(), st)
		}
		if pc := fv.prog.contracts[fv.fd.pkg.PkgPath]; pc != nil && fn.Pkg() != nil {
			for _, ip := range pc.IgnorePkgs {
				if fn.Pkg().Path() == ip || strings.HasPrefix(fn.Pkg().Path(), ip+"/") {
					fv.u.note("calls into %s are ignored here (opaque results, no modelled effect): %s", ip, key)
					fv.evalReceiverChain(call, st)
					fv.runArgClosures(call, st)
					fv.havocAddressedLocals(call, st)
					// an argument that calls a function under contract (or one an atcall clause is
					// attached to) is executed for its effects and obligations; calls that are
					// themselves opaque stay unexecuted
					for _, a := range call.Args {
						if _, isLit := ast.Unparen(a).(*ast.FuncLit); !isLit && fv.callsContracted(a) {
							fv.eval(a, st)
						}
					}
					// the call's own (instantiated) result type: a generic callee's signature
					// would give type parameters
					if ct := fv.typeOf(call); ct != nil {
						return fv.havocResults(ct, st)
					}
					return fv.havocResults(sig.Results(), st)
				}
			}
		}
		if fd := fv.prog.decls[key]; fd != nil && fd.decl.Body != nil && autoInlinable(fd.decl) && len(fv.frames) < 6 {
			fv.u.note("helper %s has no contract: its body is executed at the call site (auto-inlined)", key)
			if hasRange(fd.decl) {
				// a range loop in a helper without contract is accepted only when it unrolls
				// (constant trip count at this call site, e.g. a packed variadic argument list)
				fv.autoFrames++
				defer func() { fv.autoFrames-- }()
			}
			return fv.inlineCall(fn, call, st)
		}
		reject("call to %s without contract at %s", key, fv.pos(call.Pos()))
	}
	switch sp.Kind {
	case SKIgnore:
		fv.u.note("ignored call %s (declared ignore)", key)
		fv.evalReceiverChain(call, st)
		fv.havocAddressedLocals(call, st)
		return fv.havocResults(sig.Results(), st)
	case SKPure, SKSpecFunc:
		args, _ := fv.receiverAndArgs(fn, call, st)
		if fv.specMode == 0 && !fv.termMode {
			// executable call: the precondition under which the pure body is
			// overflow/panic free must hold here
			ord := fv.counter("call:" + sp.Name)
			for i, c := range sp.Requires {
				t := fv.evalWrapper(sp.PkgPath, c.Wrapper, args, st, nil)
				fv.oblige(st, "pre", fmt.Sprintf("%s:%d:%d", sp.Name, ord, i), t, call.Pos(), "precondition of pure "+sp.Name+": "+c.Text)
			}
		}
		return fv.pureApp(fn, sp, args, st, call.Pos())
	case SKInline:
		return fv.inlineCall(fn, call, st)
	case SKContract, SKTrusted:
		args, wb := fv.receiverAndArgs(fn, call, st)
		args = fv.packVariadic(fn, call, args)
		r := fv.modularCall(fn, sp, args, st, call.Pos())
		if wb != nil {
			wb(st)
		}
		return r
	}
	reject("call to %s: unsupported contract kind", key)
	return nil
}

// ---------------------------------------------------------------- spec helpers

func (fv *FuncVerifier) evalSpecHelper(fn *types.Func, call *ast.CallExpr, st *State) []Term {
	switch fn.Name() {
	case "__implies":
		a := fv.evalCond(call.Args[0], st)
		b := fv.evalCond(call.Args[1], st)
		return []Term{implies(a, b)}
	case "__forall", "__exists":
		lit, ok := ast.Unparen(call.Args[0]).(*ast.FuncLit)
		if !ok {
			reject("quantifier needs a function literal")
		}
		var binders []string
		var guards []Term
		saved := map[types.Object]Term{}
		for _, f := range lit.Type.Params.List {
			for _, n := range f.Names {
				obj := fv.info().Defs[n]
				srt := fv.mustSort(obj.Type(), "quantified variable")
				fv.u.fresh++
				name := fmt.Sprintf("%s!q%d", n.Name, fv.u.fresh)
				binders = append(binders, fmt.Sprintf("(%s %s)", name, srt.Name))
				if old, ok := fv.bound[obj]; ok {
					saved[obj] = old
				}
				v := Term{name, srt}
				fv.bound[obj] = v
				if srt.Kind == KInt && isInteger(obj.Type()) && obj.Type() != types.Typ[types.Int] {
					// quantification ranges over the values of the Go type
					guards = append(guards, fv.u.inRange(obj.Type(), v))
				}
			}
		}
		if len(lit.Body.List) != 1 {
			reject("quantifier body must be a single return")
		}
		ret, ok := lit.Body.List[0].(*ast.ReturnStmt)
		if !ok {
			reject("quantifier body must be a return")
		}
		fv.quantDepth++
		fv.specMode++
		body := fv.evalCond(ret.Results[0], st)
		fv.specMode--
		fv.quantDepth--
		for _, f := range lit.Type.Params.List {
			for _, n := range f.Names {
				obj := fv.info().Defs[n]
				if old, ok := saved[obj]; ok {
					fv.bound[obj] = old
				} else {
					delete(fv.bound, obj)
				}
			}
		}
		if fn.Name() == "__forall" {
			return []Term{mk(sortBool, "(forall (%s) %s)", strings.Join(binders, " "), implies(and(guards...), body).S)}
		}
		if len(binders) == 1 && strings.HasSuffix(binders[0], " Int)") && fv.info().Defs[lit.Type.Params.List[0].Names[0]].Type() == types.Typ[types.Int] {
			// witness marker: wit is constantly true; a skolemised hypothesis leaves the ground term
			// (wit sk), on which the negated existential goal over the same index can be instantiated
			fv.u.declare("fun:wit", "(declare-fun wit (Int) Bool)\n(assert (forall ((x Int)) (! (wit x) :pattern ((wit x)))))")
			nm := strings.Fields(strings.Trim(binders[0], "()"))[0]
			guards = append([]Term{mk(sortBool, "(wit %s)", nm)}, guards...)
		}
		return []Term{mk(sortBool, "(exists (%s) %s)", strings.Join(binders, " "), and(append(guards, body)...).S)}
	case "__old":
		if fv.oldState == nil {
			reject("old() outside a postcondition")
		}
		// evaluate with the heaps of the old state; wrapper parameters are in fv.bound
		// (entry values for contracts; for loop clauses oldBound overrides them with entry values)
		o := fv.oldState
		tmp := &State{vars: o.vars, heaps: o.heaps, pc: nil}
		savedB := fv.bound
		if len(fv.oldBound) > 0 {
			nb := map[types.Object]Term{}
			for k, v := range savedB {
				nb[k] = v
			}
			for k, v := range fv.oldBound {
				nb[k] = v
			}
			fv.bound = nb
		}
		fv.specMode++
		r := fv.eval(call.Args[0], tmp)
		fv.specMode--
		fv.bound = savedB
		return []Term{r}
	case "__in":
		m := fv.eval(call.Args[0], st)
		mt := fv.typeOf(call.Args[0]).Underlying().(*types.Map)
		k := fv.evalTo(call.Args[1], mt.Key(), st)
		dom, _ := fv.mapRead(m, st)
		return []Term{sel(dom, k, sortBool)}
	case "__is":
		a := fv.eval(call.Args[0], st)
		b := fv.eval(call.Args[1], st)
		return []Term{errIs(a, b)}
	case "__wgerr":
		// the error recorded so far by the (single) errgroup.Group of the verified function
		if len(fv.wgVars) > 1 {
			reject("__wgerr(): the function uses %d errgroup.Group variables", len(fv.wgVars))
		}
		for _, o := range fv.wgVars {
			if v, ok := st.vars[o]; ok {
				return []Term{v}
			}
		}
		return []Term{{"0", &Sort{Name: "Int", Kind: KErr}}}
	case "__recvs":
		// number of channel receives executed since the verified function was entered
		return []Term{fv.recvCount(st)}
	case "__recvval":
		// the i-th value received (type given by the instantiation)
		es := fv.sortOf(fv.typeOf(call))
		if es == nil {
			reject("__recvval of an unmodelled type")
		}
		return []Term{fv.recvVal(es, fv.eval(call.Args[0], st))}
	case "__seen":
		if len(fv.seenStack) == 0 {
			reject("__seen outside a map range loop invariant")
		}
		top := fv.seenStack[len(fv.seenStack)-1]
		k := fv.eval(call.Args[0], st)
		return []Term{sel(st.vars[top], k, sortBool)}
	case "__fresh":
		// in a callee postcondition: x is a newly allocated object
		x := fv.eval(call.Args[0], st)
		if x.Sort == nil || x.Sort.Kind != KRef {
			reject("__fresh of a non-reference")
		}
		if fv.oldState == nil {
			reject("__fresh outside a postcondition")
		}
		oldAl := fv.allocSet(fv.oldState, x.Sort)
		fv.pendingFresh = append(fv.pendingFresh, x)
		return []Term{and(mk(sortBool, "(> %s 0)", x.S), not(sel(oldAl, x, sortBool)))}
	case "__ite":
		c := fv.evalCond(call.Args[0], st)
		t := fv.typeOf(call)
		a := fv.evalTo(call.Args[1], t, st)
		b := fv.evalTo(call.Args[2], t, st)
		return []Term{ite(c, a, b)}
	case "__alloc":
		x := fv.eval(call.Args[0], st)
		if x.Sort == nil || x.Sort.Kind != KRef {
			reject("__alloc of a non-reference")
		}
		return []Term{sel(fv.allocSet(st, x.Sort), x, sortBool)}
	case "__eq":
		a := fv.eval(call.Args[0], st)
		b := fv.evalTo(call.Args[1], fv.typeOf(call.Args[0]), st)
		if a.Sort == nil || b.Sort == nil {
			reject("__eq on unmodelled values")
		}
		return []Term{eq(a, b)}
	case "__rm":
		// the map being ranged over by the n-th enclosing map range loop (it may have no name in the source)
		tv := fv.info().Types[call.Args[0]]
		n := 0
		if tv.Value != nil {
			fmt.Sscan(tv.Value.ExactString(), &n)
		}
		if n < 0 || n >= len(fv.rmStack) {
			reject("__rm(%d): no such enclosing map range loop", n)
		}
		return []Term{fv.rmStack[len(fv.rmStack)-1-n]}
	case "__rc":
		// completed iterations of the n-th enclosing map range loop
		tv := fv.info().Types[call.Args[0]]
		n := 0
		if tv.Value != nil {
			fmt.Sscan(tv.Value.ExactString(), &n)
		}
		if n < 0 || n >= len(fv.rcStack) {
			reject("__rc(%d): no such enclosing map range loop", n)
		}
		v, ok := st.vars[fv.rcStack[len(fv.rcStack)-1-n]]
		if !ok {
			reject("__rc(%d): counter not available here", n)
		}
		return []Term{v}
	case "__ri":
		tv := fv.info().Types[call.Args[0]]
		n := 0
		if tv.Value != nil {
			fmt.Sscan(tv.Value.ExactString(), &n)
		}
		if n < 0 || n >= len(fv.riStack) {
			reject("__ri(%d): no such enclosing range loop", n)
		}
		iv := fv.riStack[len(fv.riStack)-1-n]
		v, ok := st.vars[iv]
		if !ok {
			reject("__ri(%d): index not available here", n)
		}
		return []Term{v}
	}
	reject("unknown specification helper %s", fn.Name())
	return nil
}

func errIs(e, target Term) Term {
	return and(not(eq(e, Term{"0", sortInt})), mk(sortBool, "(= (err_root %s) (err_root %s))", e.S, target.S))
}

// havocAddressedLocals: an ignored callee may write through &x arguments.
func (fv *FuncVerifier) havocAddressedLocals(call *ast.CallExpr, st *State) {
	for _, a := range call.Args {
		// a slice (or a sub-slice view) handed to an unknown callee may be written through:
		// its contents become arbitrary, its length stays
		if root := sliceRoot(a); root != nil {
			if t := fv.info().TypeOf(a); t != nil {
				if _, isSlice := t.Underlying().(*types.Slice); isSlice && fv.isAssignableExpr(root) {
					func() {
						defer func(nframes int) {
							if r := recover(); r != nil {
								fv.frames = fv.frames[:nframes] // an unsupported construct met inside nested inlined calls: drop their frames
								if _, ok := r.(unsupported); !ok {
									panic(r)
								}
							}
						}(len(fv.frames))
						cur := fv.eval(root, st)
						if cur.Sort == nil {
							return
						}
						switch cur.Sort.Kind {
						case KSlice:
							na := fv.u.freshConst("hv", slArr(cur).Sort)
							fv.assign(root, slMk(cur.Sort, na, slLen(cur)), st)
						case KArray:
							fv.assign(root, fv.u.freshConst("hv", cur.Sort), st)
						}
						fv.u.note("slice passed to an ignored call: its contents are arbitrary afterwards")
					}()
				}
			}
			continue
		}
		u, ok := ast.Unparen(a).(*ast.UnaryExpr)
		if !ok || u.Op != token.AND {
			continue
		}
		id, ok := ast.Unparen(u.X).(*ast.Ident)
		if !ok {
			continue
		}
		obj := fv.info().Uses[id]
		if obj == nil {
			continue
		}
		srt := fv.sortOf(obj.Type())
		if srt == nil {
			delete(st.vars, obj)
			continue
		}
		v := fv.u.freshConst(id.Name, srt)
		fv.assumeTyped(st, v, obj.Type())
		st.vars[obj] = v
		fv.u.note("local %s passed by address to an ignored call: its value is arbitrary afterwards", id.Name)
	}
}

// sliceRoot: for x, x[a:b], x.f[a:b] returns the expression denoting the sliced variable/field.
func sliceRoot(e ast.Expr) ast.Expr {
	e = ast.Unparen(e)
	switch x := e.(type) {
	case *ast.SliceExpr:
		return ast.Unparen(x.X)
	case *ast.Ident, *ast.SelectorExpr:
		return e
	}
	return nil
}

func (fv *FuncVerifier) isAssignableExpr(e ast.Expr) bool {
	switch x := ast.Unparen(e).(type) {
	case *ast.Ident:
		_, ok := fv.info().Uses[x].(*types.Var)
		return ok
	case *ast.SelectorExpr:
		sel := fv.info().Selections[x]
		return sel != nil && sel.Kind() == types.FieldVal
	case *ast.IndexExpr:
		return fv.isAssignableExpr(x.X)
	}
	return false
}

// evalReceiverChain: for an ignored call x.f(...).g(...), still visit the calls that
// produce the receiver (they may carry atcall assertions or contracts).
func (fv *FuncVerifier) evalReceiverChain(call *ast.CallExpr, st *State) {
	se, ok := ast.Unparen(call.Fun).(*ast.SelectorExpr)
	if !ok {
		return
	}
	if inner, ok := ast.Unparen(se.X).(*ast.CallExpr); ok {
		fv.evalCall(inner, st, true)
	}
	_ = call
}

// packVariadic packs the trailing arguments of a variadic call into one slice term,
// which is what contract wrappers expect.
func (fv *FuncVerifier) packVariadic(fn *types.Func, call *ast.CallExpr, args []Term) []Term {
	sig := fn.Type().(*types.Signature)
	if !sig.Variadic() || call.Ellipsis.IsValid() {
		return args
	}
	k := 0
	if sig.Recv() != nil {
		k = 1
	}
	fixed := k + sig.Params().Len() - 1
	if len(args) < fixed {
		return args
	}
	et := sig.Params().At(sig.Params().Len() - 1).Type().(*types.Slice).Elem()
	es := fv.sortOf(et)
	if es == nil {
		return append(args[:fixed:fixed], Term{})
	}
	ss := fv.u.sliceSort(es)
	arr := slArr(fv.u.zero(ss))
	n := 0
	for _, a := range args[fixed:] {
		arr = store(arr, intT(int64(n)), a)
		n++
	}
	return append(args[:fixed:fixed], slMk(ss, arr, intT(int64(n))))
}

// checkAtCall: the contract's assertions about the arguments of a call to fn.
func (fv *FuncVerifier) checkAtCall(fn *types.Func, call *ast.CallExpr, st *State) {
	sig := fn.Type().(*types.Signature)
	argByName := map[string]Term{}
	for i, a := range call.Args {
		if i >= sig.Params().Len() {
			break
		}
		p := sig.Params().At(i)
		pn := p.Name()
		if pn == "" || pn == "_" {
			pn = fmt.Sprintf("arg%d", i)
		}
		if fv.sortOf(p.Type()) == nil {
			continue
		}
		if _, isLit := ast.Unparen(a).(*ast.FuncLit); isLit {
			continue
		}
		argByName[pn] = fv.evalTo(a, p.Type(), st)
	}
	ord := fv.counter("atcall:" + fn.Name())
	fr := fv.frame()
	scope := fr.pkg.Types.Scope().Innermost(call.Pos())
	for i, c := range fv.spec.AtCalls[fn.Name()] {
		wfd := fv.prog.decls[fv.spec.PkgPath+"."+c.Wrapper]
		if wfd == nil {
			reject("atcall wrapper %s missing", c.Wrapper)
		}
		wsig := wfd.fn.Type().(*types.Signature)
		vals := make([]Term, wsig.Params().Len())
		oldB := map[types.Object]Term{} // old(x) of a parameter the function reassigns is its entry value
		for k := 0; k < wsig.Params().Len(); k++ {
			name := wsig.Params().At(k).Name()
			if scope != nil {
				if _, obj := scope.LookupParent(name, call.Pos()); obj != nil {
					if v, ok := st.vars[obj]; ok {
						vals[k] = v
						if fv.entry != nil {
							if ev, ok := fv.entry.vars[obj]; ok {
								oldB[wsig.Params().At(k)] = ev
							}
						}
						continue
					}
				}
			}
			if v, ok := argByName[name]; ok {
				vals[k] = v
			}
		}
		savedOB := fv.oldBound
		fv.oldBound = oldB
		fv.inClauseHere = true
		t := fv.evalWrapper(fv.spec.PkgPath, c.Wrapper, vals, st, fv.entry)
		fv.oldBound = savedOB
		fv.oblige(st, "atcall", fmt.Sprintf("%s:%d:%d", fn.Name(), ord, i), t, call.Pos(), "at call to "+fn.Name()+": "+c.Text)
	}
}

// staticRecvKey: for a method call x.M(...), the key pkg.T.M where T is the named
// (possibly pointed-to) static type of x.
func (fv *FuncVerifier) staticRecvKey(fn *types.Func, call *ast.CallExpr) (string, ast.Expr) {
	se, ok := ast.Unparen(call.Fun).(*ast.SelectorExpr)
	if !ok {
		return "", nil
	}
	sel := fv.info().Selections[se]
	if sel == nil || sel.Kind() != types.MethodVal {
		return "", nil
	}
	t := types.Unalias(sel.Recv())
	if p, ok := t.(*types.Pointer); ok {
		t = types.Unalias(p.Elem())
	}
	n, ok := t.(*types.Named)
	if !ok || n.Obj().Pkg() == nil {
		return "", nil
	}
	return n.Obj().Pkg().Path() + "." + n.Obj().Name() + "." + fn.Name(), se.X
}

// callTSubst maps the type parameters of a generic callee (receiver and function
// type parameters of its origin) to the type arguments at this call.
func (fv *FuncVerifier) callTSubst(fn *types.Func, call *ast.CallExpr) map[*types.TypeParam]types.Type {
	origin := fn.Origin()
	osig := origin.Type().(*types.Signature)
	m := map[*types.TypeParam]types.Type{}
	if rtp := osig.RecvTypeParams(); rtp != nil && rtp.Len() > 0 {
		if recv := fn.Type().(*types.Signature).Recv(); recv != nil {
			rt := types.Unalias(recv.Type())
			if p, ok := rt.(*types.Pointer); ok {
				rt = types.Unalias(p.Elem())
			}
			if n, ok := rt.(*types.Named); ok && n.TypeArgs() != nil {
				for i := 0; i < rtp.Len() && i < n.TypeArgs().Len(); i++ {
					m[rtp.At(i)] = fv.subst(n.TypeArgs().At(i))
				}
			}
		}
	}
	if tp := osig.TypeParams(); tp != nil && tp.Len() > 0 && call != nil {
		if id := calleeIdent(call); id != nil {
			if inst, ok := fv.info().Instances[id]; ok {
				for i := 0; i < tp.Len() && i < inst.TypeArgs.Len(); i++ {
					m[tp.At(i)] = fv.subst(inst.TypeArgs.At(i))
				}
			}
		}
	}
	// identity mappings (generic code verified generically) are dropped
	for k, v := range m {
		if tp, ok := types.Unalias(v).(*types.TypeParam); ok && tp.Obj().Name() == k.Obj().Name() {
			delete(m, k)
		}
	}
	if len(m) == 0 {
		return nil
	}
	return m
}

func tsubstKey(m map[*types.TypeParam]types.Type) string {
	if len(m) == 0 {
		return ""
	}
	var parts []string
	for k, v := range m {
		parts = append(parts, k.Obj().Name()+"="+types.TypeString(v, nil))
	}
	sort.Strings(parts)
	return "<" + strings.Join(parts, ",") + ">"
}

// sortSearch models sort.Search(n, f) for a function literal f: the result r satisfies
// 0 <= r <= n, f(r) if r < n, and !f(r-1) if r > 0 - the two facts binary search establishes for any
// predicate (that r is the smallest such index then follows from monotonicity, i.e. from the
// sortedness the caller knows). f is evaluated symbolically at r and r-1, under the guard that the
// index is in [0, n), which is also the guard of the safety obligations of its body.
func (fv *FuncVerifier) sortSearch(call *ast.CallExpr, st *State) []Term {
	lit, ok := ast.Unparen(call.Args[1]).(*ast.FuncLit)
	if !ok || fv.specMode > 0 || fv.termMode {
		reject("sort.Search with a predicate that is not a function literal at %s", fv.pos(call.Pos()))
	}
	n := fv.evalTo(call.Args[0], types.Typ[types.Int], st)
	r := fv.u.freshConst("search", sortInt)
	st.assume(mk(sortBool, "(and (<= 0 %s) (<= %s %s))", r.S, r.S, n.S))
	at := func(x Term) Term {
		a := st.clone()
		a.assume(mk(sortBool, "(and (<= 0 %s) (< %s %s))", x.S, x.S, n.S))
		res := fv.runClosureBody(lit, fv.frame(), []Term{x}, a)
		if len(res) != 1 || res[0].Sort == nil || res[0].Sort.Kind != KBool {
			reject("sort.Search predicate at %s", fv.pos(lit.Pos()))
		}
		return res[0]
	}
	st.assume(implies(mk(sortBool, "(< %s %s)", r.S, n.S), at(r)))
	prev := fv.def("searchPrev", mk(sortInt, "(- %s 1)", r.S))
	st.assume(implies(mk(sortBool, "(> %s 0)", r.S), not(at(prev))))
	fv.u.note("sort.Search modelled by what binary search establishes: f(r) if r < n, !f(r-1) if r > 0")
	return []Term{r}
}

// errgroupCall models golang.org/x/sync/errgroup on a local Group variable: g.Go(func() error {...})
// runs the function literal at the call (one of the possible schedules: the claim must not depend
// on how the goroutines interleave), and records its result in the group's error, which is the
// first non-nil error of any of them (which one is arbitrary); g.Wait() returns that error.
// __wgerr() in contracts is the group's error so far.
func (fv *FuncVerifier) errgroupCall(fn *types.Func, call *ast.CallExpr, st *State) []Term {
	se, ok := ast.Unparen(call.Fun).(*ast.SelectorExpr)
	if !ok {
		reject("errgroup call at %s", fv.pos(call.Pos()))
	}
	id, ok := ast.Unparen(se.X).(*ast.Ident)
	if !ok || fv.specMode > 0 || fv.termMode {
		reject("errgroup.Group that is not a local variable at %s", fv.pos(call.Pos()))
	}
	obj := fv.wgObj(fv.info().Uses[id])
	errSort := &Sort{Name: "Int", Kind: KErr}
	cur, ok := st.vars[obj]
	if !ok {
		cur = Term{"0", errSort}
	}
	if fn.Name() == "Wait" {
		return []Term{cur}
	}
	lit, ok := ast.Unparen(call.Args[0]).(*ast.FuncLit)
	if !ok {
		reject("errgroup.Group.Go with something other than a function literal at %s", fv.pos(call.Pos()))
	}
	res := fv.runClosureBody(lit, fv.frame(), nil, st)
	if len(res) != 1 || res[0].Sort == nil {
		reject("errgroup.Group.Go: function literal without an error result at %s", fv.pos(call.Pos()))
	}
	e := res[0]
	nilE := Term{"0", errSort}
	pick := fv.u.freshConst("wgpick", sortBool)
	// both non-nil: either may be the one Wait reports
	nv := ite(eq(cur, nilE), e, ite(eq(e, nilE), cur, ite(pick, cur, e)))
	nv.Sort = errSort
	st.vars[obj] = fv.def("wgerr", nv)
	fv.u.note("errgroup: each Go(func) is executed at the call (sequentialised goroutines); Wait returns one of the non-nil results, nil only if all were nil")
	return nil
}

func (fv *FuncVerifier) wgObj(v types.Object) types.Object {
	if v == nil {
		reject("errgroup.Group variable unresolved")
	}
	if fv.wgVars == nil {
		fv.wgVars = map[types.Object]*types.Var{}
	}
	if o := fv.wgVars[v]; o != nil {
		return o
	}
	o := types.NewVar(token.NoPos, nil, "wgerr_"+v.Name(), types.Universe.Lookup("error").Type())
	fv.wgVars[v] = o
	return o
}

// binarySearchFunc models slices.BinarySearchFunc(s, target, cmp) for a function literal cmp: the
// result (pos, found) satisfies 0 <= pos <= len(s), cmp(s[pos], target) >= 0 if pos < len(s),
// cmp(s[pos-1], target) < 0 if pos > 0, and found == (pos < len(s) && cmp(s[pos], target) == 0) -
// what the binary search establishes for any comparator; that pos is the insertion point follows
// from the sortedness the caller knows.
func (fv *FuncVerifier) binarySearchFunc(call *ast.CallExpr, st *State) []Term {
	lit, ok := ast.Unparen(call.Args[2]).(*ast.FuncLit)
	if !ok || fv.specMode > 0 || fv.termMode {
		reject("slices.BinarySearchFunc with a comparator that is not a function literal at %s", fv.pos(call.Pos()))
	}
	sl := fv.eval(call.Args[0], st)
	if sl.Sort == nil || sl.Sort.Kind != KSlice {
		reject("slices.BinarySearchFunc over an unmodelled slice at %s", fv.pos(call.Pos()))
	}
	target := fv.eval(call.Args[1], st)
	n := slLen(sl)
	r := fv.u.freshConst("bsearch", sortInt)
	st.assume(mk(sortBool, "(and (<= 0 %s) (<= %s %s))", r.S, r.S, n.S))
	at := func(x Term) Term {
		a := st.clone()
		a.assume(mk(sortBool, "(and (<= 0 %s) (< %s %s))", x.S, x.S, n.S))
		res := fv.runClosureBody(lit, fv.frame(), []Term{slAt(sl, x), target}, a)
		if len(res) != 1 || res[0].Sort == nil || res[0].Sort.Kind != KInt {
			reject("slices.BinarySearchFunc comparator at %s", fv.pos(lit.Pos()))
		}
		return res[0]
	}
	here := fv.def("bcmp", at(r))
	prev := fv.def("bsearchPrev", mk(sortInt, "(- %s 1)", r.S))
	st.assume(implies(mk(sortBool, "(< %s %s)", r.S, n.S), mk(sortBool, "(>= %s 0)", here.S)))
	st.assume(implies(mk(sortBool, "(> %s 0)", r.S), mk(sortBool, "(< %s 0)", at(prev).S)))
	found := fv.def("bfound", and(mk(sortBool, "(< %s %s)", r.S, n.S), mk(sortBool, "(= %s 0)", here.S)))
	fv.u.note("slices.BinarySearchFunc modelled by what binary search establishes: cmp(s[pos], t) >= 0 if pos < len, cmp(s[pos-1], t) < 0 if pos > 0")
	return []Term{r, found}
}

// ---------------------------------------------------------------- pure functions

func (fv *FuncVerifier) pureApp(fn *types.Func, sp *FuncSpec, args []Term, st *State, p token.Pos) []Term {
	abstract := false
	for _, n := range strings.FieldsFunc(fv.spec.Pragmas["abstract"], func(r rune) bool { return r == ',' || r == ' ' }) {
		if n == fn.Name() {
			abstract = true
		}
	}
	if fd := fv.prog.decls[sp.Key]; fd == nil || fd.decl.Body == nil || abstract {
		// interface method (or external function) declared pure: an uninterpreted,
		// deterministic function of its arguments
		var ps []string
		var as []Term
		for _, a := range args {
			if a.Sort != nil {
				ps = append(ps, a.Sort.Name)
				as = append(as, a)
			}
		}
		sig := fn.Type().(*types.Signature)
		var out []Term
		for i := 0; i < sig.Results().Len(); i++ {
			rs := fv.mustSort(sig.Results().At(i).Type(), "result")
			n := fmt.Sprintf("u_%s_%d_%s", sanitize(strings.TrimPrefix(sp.Key, "github.com/synnaxlabs/")), i, sanitize(strings.Join(ps, "_")))
			fv.u.declare("fun:"+n, fmt.Sprintf("(declare-fun %s (%s) %s)", n, strings.Join(ps, " "), rs.Name)+uninterpResultAxiom(n, ps, rs))
			out = append(out, app(rs, n, as...))
		}
		fv.u.note("%s has no body here (interface method): modelled as an uninterpreted, deterministic function of its arguments", sp.Key)
		fv.pureUsed[sp.Key] = true
		return out
	}
	pd := fv.getPure(fn, sp, fv.callTSubst(fn, fv.curCall))
	var out []Term
	var all []Term
	for _, a := range args {
		if a.Sort != nil {
			all = append(all, a)
		}
	}
	for _, hf := range pd.heaps {
		h, ok := st.heaps[hf.name]
		if !ok {
			// initial heap
			if fv.termMode && fv.pureHeaps != nil {
				found := false
				for _, x := range *fv.pureHeaps {
					if x.name == hf.name {
						found = true
					}
				}
				if !found {
					*fv.pureHeaps = append(*fv.pureHeaps, hf)
				}
				h = Term{"hp_" + sanitize(hf.name), hf.sort}
			} else if ih, ok2 := fv.initHeaps[hf.name]; ok2 {
				h = ih
			} else {
				n := sanitize(hf.name) + "!0"
				fv.u.declare("heap:"+n, fmt.Sprintf("(declare-const %s %s)", n, hf.sort.Name))
				h = Term{n, hf.sort}
				fv.nilMapAxiom(hf.name, h)
				fv.initHeaps[hf.name] = h
			}
		}
		all = append(all, h)
	}
	for i, n := range pd.names {
		out = append(out, app(pd.sorts[i], n, all...))
	}
	return out
}

func (fv *FuncVerifier) getPure(fn *types.Func, sp *FuncSpec, ts map[*types.TypeParam]types.Type) *pureDef {
	key := sp.Key + tsubstKey(ts)
	if pd, ok := fv.pureDefs[key]; ok {
		if pd == nil {
			// a recursive reference met while the function is being defined: a specification
			// function with an explicit body becomes a define-fun-rec (single result, no heap reads)
			if sp.Kind != SKSpecFunc || sp.Body == "" {
				reject("recursive pure function %s", key)
			}
			rfd := fv.prog.decls[sp.Key]
			rsig := rfd.fn.Type().(*types.Signature)
			if rsig.Results().Len() != 1 {
				reject("recursive specification function %s must have one result", key)
			}
			if fv.recPure == nil {
				fv.recPure = map[string]bool{}
			}
			fv.recPure[key] = true
			rs := fv.mustSort(rsig.Results().At(0).Type(), "spec func result")
			return &pureDef{names: []string{"f_" + sanitize(strings.TrimPrefix(key, "github.com/synnaxlabs/"))}, sorts: []*Sort{rs}}
		}
		return pd
	}
	fd := fv.prog.decls[sp.Key]
	if fd == nil || fd.decl.Body == nil {
		// interface method (or external function) declared pure: uninterpreted function of its arguments
		sig := fn.Type().(*types.Signature)
		var ps []string
		if sig.Recv() != nil {
			ps = append(ps, fv.mustSort(sig.Recv().Type(), "receiver").Name)
		}
		for i := 0; i < sig.Params().Len(); i++ {
			if s := fv.sortOf(sig.Params().At(i).Type()); s != nil {
				ps = append(ps, s.Name)
			}
		}
		pd := &pureDef{}
		for i := 0; i < sig.Results().Len(); i++ {
			rs := fv.mustSort(sig.Results().At(i).Type(), "result")
			n := fmt.Sprintf("u_%s_%d%s", sanitize(strings.TrimPrefix(sp.Key, "github.com/synnaxlabs/")), i, sanitize(strings.Join(ps, "_")))
			fv.u.declare("fun:"+n, fmt.Sprintf("(declare-fun %s (%s) %s)", n, strings.Join(ps, " "), rs.Name)+uninterpResultAxiom(n, ps, rs))
			pd.names = append(pd.names, n)
			pd.sorts = append(pd.sorts, rs)
		}
		fv.u.note("%s has no body here (interface method): modelled as an uninterpreted, deterministic function of its arguments", sp.Key)
		fv.pureDefs[key] = pd
		return pd
	}
	if sp.Kind == SKSpecFunc && sp.Body == "" {
		// uninterpreted
		fv.frames = append(fv.frames, &frame{fd: fd, info: fd.pkg.TypesInfo, pkg: fd.pkg, tsubst: ts})
		defer func() { fv.frames = fv.frames[:len(fv.frames)-1] }()
		sig := fd.fn.Type().(*types.Signature)
		var ps []string
		for i := 0; i < sig.Params().Len(); i++ {
			ps = append(ps, fv.mustSort(sig.Params().At(i).Type(), "spec func parameter").Name)
		}
		rs := fv.mustSort(sig.Results().At(0).Type(), "spec func result")
		n := "u_" + sanitize(strings.TrimPrefix(key, "github.com/synnaxlabs/"))
		fv.u.decls = append(fv.u.decls, fmt.Sprintf("(declare-fun %s (%s) %s)", n, strings.Join(ps, " "), rs.Name))
		pd := &pureDef{names: []string{n}, sorts: []*Sort{rs}}
		fv.pureDefs[key] = pd
		return pd
	}
	fv.pureDefs[key] = nil
	sig := fd.fn.Type().(*types.Signature)
	// build in term mode
	savedTerm, savedHeaps, savedSpec, savedBound := fv.termMode, fv.pureHeaps, fv.specMode, fv.bound
	var heaps []heapFormal
	fv.termMode, fv.pureHeaps, fv.specMode = true, &heaps, 0
	fv.bound = map[types.Object]Term{}
	nf := &frame{fd: fd, info: fd.pkg.TypesInfo, pkg: fd.pkg, tsubst: ts}
	st := &State{vars: map[types.Object]Term{}, heaps: map[string]Term{}}
	var formals []string
	fv.frames = append(fv.frames, nf)
	bindParam := func(v *types.Var, i int) {
		s := fv.sortOf(v.Type())
		if s == nil {
			return
		}
		n := fmt.Sprintf("a%d", i)
		formals = append(formals, fmt.Sprintf("(%s %s)", n, s.Name))
		st.vars[v] = Term{n, s}
	}
	k := 0
	if sig.Recv() != nil {
		bindParam(sig.Recv(), k)
		k++
	}
	for i := 0; i < sig.Params().Len(); i++ {
		bindParam(sig.Params().At(i), k)
		k++
	}
	for i := 0; i < sig.Results().Len(); i++ {
		r := sig.Results().At(i)
		var obj types.Object = r
		if r.Name() == "" || r.Name() == "_" {
			obj = types.NewVar(token.NoPos, fd.pkg.Types, fmt.Sprintf("ret%d", i), r.Type())
		} else if s := fv.sortOf(r.Type()); s != nil {
			st.vars[r] = fv.u.zero(s)
		}
		nf.results = append(nf.results, obj)
	}
	var results []Term
	func() {
		defer func() {
			fv.frames = fv.frames[:len(fv.frames)-1]
			fv.termMode, fv.pureHeaps, fv.specMode, fv.bound = savedTerm, savedHeaps, savedSpec, savedBound
		}()
		results = fv.termStmts(fd.decl.Body.List, st)
	}()
	pd := &pureDef{heaps: heaps}
	for _, hf := range heaps {
		formals = append(formals, fmt.Sprintf("(hp_%s %s)", sanitize(hf.name), hf.sort.Name))
	}
	base := "f_" + sanitize(strings.TrimPrefix(key, "github.com/synnaxlabs/"))
	for i, r := range results {
		if r.Sort == nil {
			reject("pure function %s returns unmodelled value", key)
		}
		n := base
		if len(results) > 1 {
			n = fmt.Sprintf("%s_%d", base, i)
		}
		if fv.recPure[key] {
			if len(heaps) > 0 {
				reject("recursive specification function %s reads the heap", key)
			}
			fv.u.decls = append(fv.u.decls, fmt.Sprintf("(define-fun-rec %s (%s) %s %s)", n, strings.Join(formals, " "), r.Sort.Name, r.S))
			fv.u.note("recursive specification function %s (define-fun-rec): the solvers unfold it, induction comes from loop invariants", shortName(sp.Key))
		} else if _, opaque := sp.Pragmas["trigger"]; opaque && sp.Kind == SKSpecFunc && len(formals) > 0 {
			// pragma trigger: the function stays a symbol (declare-fun plus a definitional axiom
			// whose pattern is its application), so that an application written in a hint is a
			// ground term quantifier instantiation can match: used to hand witnesses to exists-goals
			var srt, nm []string
			for _, f := range formals {
				f = strings.TrimSuffix(strings.TrimPrefix(f, "("), ")")
				k := strings.IndexByte(f, ' ')
				nm = append(nm, f[:k])
				srt = append(srt, f[k+1:])
			}
			appl := "(" + n + " " + strings.Join(nm, " ") + ")"
			fv.u.decls = append(fv.u.decls, fmt.Sprintf("(declare-fun %s (%s) %s)\n(assert (forall (%s) (! (= %s %s) :pattern (%s))))", n, strings.Join(srt, " "), r.Sort.Name, strings.Join(formals, " "), appl, r.S, appl))
		} else if len(formals) == 0 {
			fv.u.decls = append(fv.u.decls, fmt.Sprintf("(define-fun %s () %s %s)", n, r.Sort.Name, r.S))
		} else {
			fv.u.decls = append(fv.u.decls, fmt.Sprintf("(define-fun %s (%s) %s %s)", n, strings.Join(formals, " "), r.Sort.Name, r.S))
		}
		pd.names = append(pd.names, n)
		pd.sorts = append(pd.sorts, r.Sort)
		pd.bodies = append(pd.bodies, r.S)
	}
	for _, f := range formals {
		// "(a0 Sort)" -> a0
		f = strings.TrimPrefix(f, "(")
		pd.formals = append(pd.formals, f[:strings.IndexByte(f, ' ')])
	}
	fv.pureDefs[key] = pd
	fv.pureUsed[sp.Key] = true
	return pd
}

// autoInlinable: a loop-free, goroutine-free, defer-free body.
func autoInlinable(fd *ast.FuncDecl) bool {
	ok := true
	ast.Inspect(fd.Body, func(n ast.Node) bool {
		switch n.(type) {
		case *ast.ForStmt, *ast.GoStmt, *ast.SelectStmt, *ast.DeferStmt, *ast.SendStmt:
			ok = false
		}
		return ok
	})
	return ok
}

func hasRange(fd *ast.FuncDecl) bool {
	found := false
	ast.Inspect(fd.Body, func(n ast.Node) bool {
		if _, ok := n.(*ast.RangeStmt); ok {
			found = true
		}
		return !found
	})
	return found
}

func containsReturn(n ast.Node) bool {
	found := false
	ast.Inspect(n, func(n ast.Node) bool {
		switch n.(type) {
		case *ast.ReturnStmt:
			found = true
		case *ast.FuncLit:
			return false
		}
		return !found
	})
	return found
}

// termStmts evaluates a statement list functionally; every path must return.
func (fv *FuncVerifier) termStmts(stmts []ast.Stmt, st *State) []Term {
	for i, s := range stmts {
		rest := stmts[i+1:]
		switch s := s.(type) {
		case *ast.ReturnStmt:
			fr := fv.frame()
			if len(s.Results) == 0 {
				var out []Term
				for _, r := range fr.results {
					out = append(out, st.vars[r])
				}
				return out
			}
			if len(s.Results) == 1 && len(fr.results) > 1 {
				return fv.evalMulti(s.Results[0], st)
			}
			var out []Term
			for j, r := range s.Results {
				out = append(out, fv.evalTo(r, fr.results[j].Type(), st))
			}
			return out
		case *ast.IfStmt:
			if !containsReturn(s) {
				st = fv.exec(s, st)
				continue
			}
			if s.Init != nil {
				st = fv.exec(s.Init, st)
			}
			c := fv.evalCond(s.Cond, st)
			a := fv.termStmts(append(append([]ast.Stmt{}, s.Body.List...), rest...), st.clone())
			var els []ast.Stmt
			if s.Else != nil {
				els = []ast.Stmt{s.Else}
			}
			b := fv.termStmts(append(els, rest...), st.clone())
			out := make([]Term, len(a))
			for j := range a {
				out[j] = ite(c, a[j], b[j])
			}
			return out
		case *ast.BlockStmt:
			return fv.termStmts(append(append([]ast.Stmt{}, s.List...), rest...), st)
		case *ast.SwitchStmt:
			if !containsReturn(s) {
				st = fv.exec(s, st)
				continue
			}
			// rewrite into an if chain
			if s.Init != nil {
				st = fv.exec(s.Init, st)
			}
			return fv.termSwitch(s, rest, st)
		case *ast.AssignStmt, *ast.DeclStmt, *ast.IncDecStmt, *ast.EmptyStmt:
			st = fv.exec(s, st)
		case *ast.ExprStmt:
			// e.g. panic(...) in a pure function: value is arbitrary on that path
			if call, ok := s.X.(*ast.CallExpr); ok {
				if fv.isIgnoredCall(call) {
					continue
				}
				if b, ok := fv.calleeOf(call).(*types.Builtin); ok && b.Name() == "panic" {
					fr := fv.frame()
					var out []Term
					for _, r := range fr.results {
						srt := fv.mustSort(r.Type(), "result")
						n := "panic_val_" + sanitize(srt.Name)
						fv.u.declare("const:"+n, fmt.Sprintf("(declare-const %s %s)", n, srt.Name))
						out = append(out, Term{n, srt})
					}
					fv.u.note("pure function with panic path: result unspecified on that path")
					return out
				}
			}
			reject("statement in pure function at %s", fv.pos(s.Pos()))
		default:
			reject("statement %T in pure function at %s", s, fv.pos(s.Pos()))
		}
	}
	reject("pure function may fall off its end")
	return nil
}

func (fv *FuncVerifier) termSwitch(s *ast.SwitchStmt, rest []ast.Stmt, st *State) []Term {
	var tag Term
	var tagT types.Type
	if s.Tag != nil {
		tag = fv.eval(s.Tag, st)
		tagT = fv.typeOf(s.Tag)
	}
	var deflt *ast.CaseClause
	var clauses []*ast.CaseClause
	for _, c := range s.Body.List {
		cc := c.(*ast.CaseClause)
		if cc.List == nil {
			deflt = cc
		} else {
			clauses = append(clauses, cc)
		}
	}
	var build func(i int) []Term
	build = func(i int) []Term {
		if i == len(clauses) {
			var body []ast.Stmt
			if deflt != nil {
				body = deflt.Body
			}
			return fv.termStmts(append(append([]ast.Stmt{}, body...), rest...), st.clone())
		}
		var conds []Term
		for _, e := range clauses[i].List {
			if s.Tag != nil {
				conds = append(conds, eq(tag, fv.evalTo(e, tagT, st)))
			} else {
				conds = append(conds, fv.evalCond(e, st))
			}
		}
		c := or(conds...)
		a := fv.termStmts(append(append([]ast.Stmt{}, clauses[i].Body...), rest...), st.clone())
		b := build(i + 1)
		out := make([]Term, len(a))
		for j := range a {
			out[j] = ite(c, a[j], b[j])
		}
		return out
	}
	return build(0)
}

// ---------------------------------------------------------------- inline calls

func (fv *FuncVerifier) inlineCall(fn *types.Func, call *ast.CallExpr, st *State) []Term {
	key := funcKey(fn)
	fd := fv.prog.decls[key]
	if fd == nil || fd.decl.Body == nil {
		reject("inline function %s has no body in the loaded program", key)
	}
	if len(fv.frames) > 12 {
		reject("inline depth exceeded at %s", key)
	}
	callerFrame := fv.frame()
	args, wb := fv.receiverAndArgs(fn, call, st)
	sig := fd.fn.Type().(*types.Signature)
	nf := &frame{fd: fd, info: fd.pkg.TypesInfo, pkg: fd.pkg, tsubst: fv.callTSubst(fn, call)}
	fv.frames = append(fv.frames, nf) // from here on types are seen through the callee's instantiation
	k := 0
	if sig.Recv() != nil {
		if args[0].Sort != nil {
			st.vars[sig.Recv()] = args[0]
		}
		k = 1
	}
	for i := 0; i < sig.Params().Len(); i++ {
		p := sig.Params().At(i)
		if sig.Variadic() && i == sig.Params().Len()-1 && !call.Ellipsis.IsValid() {
			// pack variadic args into a slice
			es := fv.sortOf(p.Type().(*types.Slice).Elem())
			if es == nil {
				continue
			}
			ss := fv.u.sliceSort(es)
			arr := slArr(fv.u.zero(ss))
			n := 0
			for _, a := range args[k+i:] {
				arr = store(arr, intT(int64(n)), a)
				n++
			}
			st.vars[p] = slMk(ss, arr, intT(int64(n)))
			break
		}
		ai := k + i
		if ai < len(args) && args[ai].Sort != nil {
			st.vars[p] = args[ai]
		} else if ai-k < len(call.Args) {
			if lit, ok := ast.Unparen(call.Args[ai-k]).(*ast.FuncLit); ok {
				fv.closures[p] = &closure{lit: lit, fr: callerFrame}
			} else if id, ok := ast.Unparen(call.Args[ai-k]).(*ast.Ident); ok {
				if cl, ok := fv.closures[callerFrame.info.Uses[id]]; ok {
					fv.closures[p] = cl
				}
			}
		}
	}
	for i := 0; i < sig.Results().Len(); i++ {
		r := sig.Results().At(i)
		var obj types.Object = r
		if r.Name() == "" || r.Name() == "_" {
			obj = types.NewVar(token.NoPos, fd.pkg.Types, fmt.Sprintf("ret%d", i), r.Type())
		} else if s := fv.sortOf(r.Type()); s != nil {
			st.vars[r] = fv.u.zero(s)
		}
		nf.results = append(nf.results, obj)
	}
	base := len(st.pc)
	end := fv.execBlock(fd.decl.Body.List, st.clone())
	if end != nil {
		fv.finishReturn(end, fd.decl.End())
	}
	m := fv.mergeStates(nf.rets, base)
	if m == nil {
		st.assume(boolT(false))
		r := fv.deadResults(sig.Results())
		fv.frames = fv.frames[:len(fv.frames)-1]
		return r
	}
	fv.frames = fv.frames[:len(fv.frames)-1]
	*st = *m
	var out []Term
	for _, r := range nf.results {
		out = append(out, st.vars[r])
	}
	if wb != nil {
		wb(st)
	}
	fv.inlined[key] = true
	return out
}

func (fv *FuncVerifier) deadResults(t *types.Tuple) []Term {
	var out []Term
	for i := 0; i < t.Len(); i++ {
		s := fv.sortOf(t.At(i).Type())
		if s == nil {
			out = append(out, Term{})
		} else {
			out = append(out, fv.u.zero(s))
		}
	}
	return out
}

func calleeIdent(call *ast.CallExpr) *ast.Ident {
	switch f := ast.Unparen(call.Fun).(type) {
	case *ast.Ident:
		return f
	case *ast.SelectorExpr:
		return f.Sel
	case *ast.IndexExpr:
		switch g := f.X.(type) {
		case *ast.Ident:
			return g
		case *ast.SelectorExpr:
			return g.Sel
		}
	}
	return nil
}

// ---------------------------------------------------------------- modular calls

// evalWrapper evaluates a generated specification function with its parameters
// bound (by position) to the given terms.
func (fv *FuncVerifier) evalWrapper(pkgPath, name string, vals []Term, st *State, old *State) Term {
	return fv.evalWrapperT(pkgPath, name, vals, st, old, nil)
}

// evalWrapperPick evaluates a sub-expression (chosen by pick) of the wrapper's body.
func (fv *FuncVerifier) evalWrapperPick(pkgPath, name string, vals []Term, st *State, old *State, pick func(ast.Expr) ast.Expr) Term {
	saved := fv.pick
	fv.pick = pick
	defer func() { fv.pick = saved }()
	return fv.evalWrapperT(pkgPath, name, vals, st, old, nil)
}

// evalWrapperT: targs are the actual types for the wrapper's type parameters (in order).
func (fv *FuncVerifier) evalWrapperT(pkgPath, name string, vals []Term, st *State, old *State, targs []types.Type) Term {
	fd := fv.prog.decls[pkgPath+"."+name]
	if fd == nil {
		reject("specification function %s.%s not found (contract not type-checked?)", pkgPath, name)
	}
	nf := &frame{fd: fd, info: fd.pkg.TypesInfo, pkg: fd.pkg}
	if tp := fd.fn.Type().(*types.Signature).TypeParams(); tp != nil && len(targs) > 0 {
		nf.tsubst = map[*types.TypeParam]types.Type{}
		for i := 0; i < tp.Len() && i < len(targs); i++ {
			if t2, ok := types.Unalias(targs[i]).(*types.TypeParam); ok && t2.Obj().Name() == tp.At(i).Obj().Name() {
				continue
			}
			nf.tsubst[tp.At(i)] = targs[i]
		}
	}
	sig := fd.fn.Type().(*types.Signature)
	savedBound := fv.bound
	nb := map[types.Object]Term{}
	for k, v := range savedBound {
		nb[k] = v
	}
	for i := 0; i < sig.Params().Len() && i < len(vals); i++ {
		if vals[i].Sort != nil {
			nb[sig.Params().At(i)] = vals[i]
		}
	}
	fv.bound = nb
	if !fv.inClauseHere {
		savedOB := fv.oldBound
		fv.oldBound = nil
		defer func() { fv.oldBound = savedOB }()
	}
	fv.inClauseHere = false
	savedOld := fv.oldState
	if old != nil {
		fv.oldState = old
	}
	fv.frames = append(fv.frames, nf)
	fv.specMode++
	defer func() {
		fv.specMode--
		fv.frames = fv.frames[:len(fv.frames)-1]
		fv.bound = savedBound
		fv.oldState = savedOld
	}()
	ret := fd.decl.Body.List[0].(*ast.ReturnStmt)
	e := ret.Results[0]
	if fv.pick != nil {
		e = fv.pick(e)
		fv.pick = nil
	}
	return fv.eval(e, st)
}

func (fv *FuncVerifier) modularCall(fn *types.Func, sp *FuncSpec, args []Term, st *State, p token.Pos) []Term {
	if fv.specMode > 0 || fv.termMode {
		reject("call to %s (contract, not pure) inside a specification", sp.Key)
	}
	sig := fn.Type().(*types.Signature)
	ord := fv.counter("call:" + sp.Name)
	// generic callee: its contract is read through the instantiation at this call
	if ts := fv.callTSubst(fn, fv.curCall); len(ts) > 0 {
		cur := fv.frame()
		fv.frames = append(fv.frames, &frame{fd: cur.fd, info: cur.info, pkg: cur.pkg, tsubst: ts, loops: cur.loops})
		defer func() { fv.frames = fv.frames[:len(fv.frames)-1] }()
	}
	// 1. preconditions
	for i, c := range sp.Requires {
		t := fv.evalWrapper(sp.PkgPath, c.Wrapper, args, st, nil)
		if c.Invariant && fv.fd != nil && fv.fd.pkg != nil && fv.fd.pkg.PkgPath != sp.PkgPath {
			fv.u.note("representation invariant of %s assumed at a call from another package: %s", sp.PkgPath, c.Text)
			st.assume(t)
			continue
		}
		fv.oblige(st, "pre", fmt.Sprintf("%s:%d:%d", sp.Name, ord, i), t, p, "precondition of "+sp.Name+": "+c.Text)
	}
	old := st.clone()
	beforeSMT := fv.buildQuery(st, boolT(true))
	// 2. havoc the footprint
	fv.havocFootprint(sp, args, st, old)
	// 3. results
	var results []Term
	for i := 0; i < sig.Results().Len(); i++ {
		rt := sig.Results().At(i).Type()
		s := fv.sortOf(rt)
		if s == nil {
			results = append(results, Term{})
			continue
		}
		v := fv.u.freshConst(sp.Name+"_r", s)
		fv.noAllocAssume = true
		fv.assumeTyped(st, v, rt)
		fv.noAllocAssume = false
		results = append(results, v)
	}
	// 4. postconditions
	vals := append(append([]Term{}, args...), results...)
	fv.pendingFresh = nil
	// a callee whose contract speaks about allocation (__fresh results) may have allocated any
	// number of objects: the allocation sets grow arbitrarily before its postconditions are
	// assumed, so that __alloc(..) in them refers to the state after the call
	grows := false
	for _, c := range sp.Ensures {
		if strings.Contains(c.Text, "__fresh(") {
			grows = true
		}
	}
	if grows {
		// first pass (on a scratch state) only finds out which sorts get fresh objects
		scratch := st.clone()
		for _, c := range sp.Ensures {
			fv.evalWrapper(sp.PkgPath, c.Wrapper, vals, scratch, old)
		}
		seen := map[string]bool{}
		for _, x := range fv.pendingFresh {
			k := "alloc:" + heapName(x.Sort)
			if seen[k] {
				continue
			}
			seen[k] = true
			cur := fv.allocSet(st, x.Sort)
			na := fv.u.freshConst("alloc", cur.Sort)
			st.assume(mk(sortBool, "(forall ((x!f Int)) (! (=> (select %s x!f) (select %s x!f)) :pattern ((select %s x!f))))", cur.S, na.S, na.S))
			st.heaps[k] = na
		}
		fv.pendingFresh = nil
	}
	for _, c := range sp.Ensures {
		st.assume(fv.evalWrapper(sp.PkgPath, c.Wrapper, vals, st, old))
	}
	for _, x := range fv.pendingFresh {
		al := fv.allocSet(st, x.Sort)
		st.heaps["alloc:"+heapName(x.Sort)] = fv.def("alloc", store(al, x, boolT(true)))
	}
	fv.pendingFresh = nil
	for i, v := range results {
		if v.Sort != nil {
			fv.assumeTyped(st, v, sig.Results().At(i).Type())
		}
	}
	// vacuity guard: the assumed postcondition must not contradict the state
	if co := fv.cover(st, fmt.Sprintf("after:%s:%d", sp.Name, ord), boolT(true), "state after call to "+sp.Name+" is satisfiable"); co != nil {
		co.AltSMT = beforeSMT
	}
	for _, c := range sp.Ensures {
		if c.Trusted {
			fv.trustedUsed[sp.Key+" (trusted_ensures: "+c.Text+")"] = true
		}
	}
	if sp.Kind == SKTrusted {
		fv.trustedUsed[sp.Key] = true
	} else {
		fv.contractUsed[sp.Key] = true
	}
	return results
}

// havocFootprint replaces the heaps named by the callee's modifies clause.
func (fv *FuncVerifier) havocFootprint(sp *FuncSpec, args []Term, st *State, old *State) {
	if sp.ModAll {
		fv.havocAllHeaps(st)
		return
	}
	fp := footprint{}
	for _, c := range sp.Modifies {
		fp.add(fv.evalModTarget(sp.PkgPath, c.Wrapper, args, old))
	}
	for _, hn := range fp.names() {
		ref := fp[hn][0].ref.Sort
		cur := fv.heap(st, ref)
		nh := fv.u.freshConst(hn, cur.Sort)
		fv.nilMapAxiom(hn, nh)
		fv.assumeFrame(st, fp[hn], ref, cur, nh, "")
		st.heaps[hn] = nh
	}
}

// ---------------------------------------------------------------- checking the verified function's own contract

func (fv *FuncVerifier) entryVals() []Term {
	sig := fv.fd.fn.Type().(*types.Signature)
	var vals []Term
	if sig.Recv() != nil {
		vals = append(vals, fv.entry.vars[sig.Recv()])
	}
	for i := 0; i < sig.Params().Len(); i++ {
		vals = append(vals, fv.entry.vars[sig.Params().At(i)])
	}
	return vals
}

func (fv *FuncVerifier) checkPost(st *State, p token.Pos) {
	ret := fv.retOrdinal
	fv.retOrdinal++
	vals := fv.entryVals()
	for _, r := range fv.frames[0].results {
		vals = append(vals, st.vars[r])
	}
	for i, c := range fv.spec.Ensures {
		if c.Trusted {
			fv.u.note("trusted_ensures of %s is assumed for callers, not proved: %s", fv.name, c.Text)
			continue
		}
		t := fv.evalWrapper(fv.spec.PkgPath, c.Wrapper, vals, st, fv.entry)
		fv.curClause = c
		fv.oblige(st, "post", fmt.Sprintf("%d:ret%d", i, ret), t, p, c.Text)
		fv.curClause = nil
	}
	fv.checkFrame(st, p, ret)
	if os_cover {
		fv.cover(st, fmt.Sprintf("ret%d", ret), boolT(true), "return reachable")
	}
}

var os_cover = false

func (fv *FuncVerifier) checkFrame(st *State, p token.Pos, ret int) {
	if fv.spec.ModAll {
		return
	}
	fp := footprint{}
	for _, c := range fv.spec.Modifies {
		fp.add(fv.evalModTarget(fv.spec.PkgPath, c.Wrapper, fv.entryVals(), fv.entry))
	}
	var names []string
	for hn := range st.heaps {
		if !strings.HasPrefix(hn, "alloc:") {
			names = append(names, hn)
		}
	}
	sort.Strings(names)
	for _, hn := range names {
		cur := st.heaps[hn]
		init, ok := fv.initHeaps[hn]
		if !ok || init.S == cur.S {
			continue
		}
		ref := fv.heapSorts[hn]
		if ref == nil {
			reject("internal: heap %s without sort", hn)
		}
		alloc := ""
		if al, ok := fv.initHeaps["alloc:"+hn]; ok {
			alloc = al.S
		}
		goal := fv.frameGoal(fp[hn], ref, init, cur, alloc)
		fv.oblige(st, "frame", fmt.Sprintf("%s:ret%d", hn, ret), goal, p, "objects (and fields) outside the modifies clause are unchanged in "+hn)
	}
}

// evalClauseHere evaluates a loop clause: wrapper parameters are looked up by
// name in the scope at the loop.
func (fv *FuncVerifier) evalClauseHere(c *Clause, st *State, pos token.Pos) Term {
	fr := fv.frame()
	if fv.clauseCtx != nil {
		fr, pos = fv.clauseCtx.fr, fv.clauseCtx.pos
	}
	specFd := fr.fd
	sp := fv.prog.specs[specFd.key]
	fd := fv.prog.decls[sp.PkgPath+"."+c.Wrapper]
	if fd == nil {
		reject("loop specification %s not found", c.Wrapper)
	}
	sig := fd.fn.Type().(*types.Signature)
	vals := make([]Term, sig.Params().Len())
	oldB := map[types.Object]Term{}
	scope := fr.pkg.Types.Scope().Innermost(pos)
	for i := 0; i < sig.Params().Len(); i++ {
		name := sig.Params().At(i).Name()
		if lo := fv.letObjs[name]; lo != nil {
			if v, ok := st.vars[lo]; ok {
				vals[i] = v
				continue
			}
		}
		if scope == nil {
			continue
		}
		_, obj := scope.LookupParent(name, pos)
		if obj == nil {
			continue
		}
		if v, ok := st.vars[obj]; ok {
			vals[i] = v
		}
		if fv.entry != nil {
			if ev, ok := fv.entry.vars[obj]; ok {
				oldB[sig.Params().At(i)] = ev
			}
		}
	}
	savedOB := fv.oldBound
	fv.oldBound = oldB
	defer func() { fv.oldBound = savedOB }()
	fv.inClauseHere = true
	if fv.clausePick != nil {
		pk := fv.clausePick
		fv.clausePick = nil
		return fv.evalWrapperPick(sp.PkgPath, c.Wrapper, vals, st, fv.entry, pk)
	}
	return fv.evalWrapper(sp.PkgPath, c.Wrapper, vals, st, fv.entry)
}

// evalLoopModTarget evaluates one `loop N modifies` entry in the state before the loop.
func (fv *FuncVerifier) evalLoopModTarget(c *Clause, st *State, pos token.Pos) modTarget {
	field := ""
	fv.clausePick = func(e ast.Expr) ast.Expr {
		e = ast.Unparen(e)
		if u, ok := e.(*ast.UnaryExpr); ok && u.Op == token.AND {
			if se, ok := ast.Unparen(u.X).(*ast.SelectorExpr); ok {
				field = se.Sel.Name
				return se.X
			}
		}
		return e
	}
	r := fv.evalClauseHere(c, st, pos)
	if r.Sort == nil || r.Sort.Kind != KRef {
		reject("loop modifies target %q is not a pointer, a map or &ptr.field", c.Text)
	}
	if field != "" && (r.Sort.Key != nil || r.Sort.Elem.Kind != KStruct || r.Sort.Elem.field(field) == nil) {
		reject("loop modifies target %q: not a modelled struct field", c.Text)
	}
	return modTarget{r, field}
}

// ---------------------------------------------------------------- global initialisers

type globalInit struct {
	expr ast.Expr
	pkg  *packages.Package
}

func (p *Prog) globalInit(o *types.Var) *globalInit {
	pkg := p.pkgs[o.Pkg().Path()]
	if pkg == nil || pkg.TypesInfo == nil {
		return nil
	}
	for _, f := range pkg.Syntax {
		for _, d := range f.Decls {
			gd, ok := d.(*ast.GenDecl)
			if !ok || gd.Tok != token.VAR {
				continue
			}
			for _, s := range gd.Specs {
				vs := s.(*ast.ValueSpec)
				for i, n := range vs.Names {
					if pkg.TypesInfo.Defs[n] == o && i < len(vs.Values) && len(vs.Values) == len(vs.Names) {
						return &globalInit{vs.Values[i], pkg}
					}
				}
			}
		}
	}
	return nil
}

// uninterpResultAxiom: a slice returned by an uninterpreted function still is a slice (0 <= len <= 2^56).
func uninterpResultAxiom(n string, ps []string, rs *Sort) string {
	if rs == nil || rs.Kind != KSlice {
		return ""
	}
	if len(ps) == 0 {
		return fmt.Sprintf("\n(assert (and (<= 0 (len_%s %s)) (<= (len_%s %s) 72057594037927936)))", rs.Name, n, rs.Name, n)
	}
	var bs, as []string
	for i, p := range ps {
		bs = append(bs, fmt.Sprintf("(x!%d %s)", i, p))
		as = append(as, fmt.Sprintf("x!%d", i))
	}
	call := fmt.Sprintf("(%s %s)", n, strings.Join(as, " "))
	return fmt.Sprintf("\n(assert (forall (%s) (! (and (<= 0 (len_%s %s)) (<= (len_%s %s) 72057594037927936)) :pattern (%s))))", strings.Join(bs, " "), rs.Name, call, rs.Name, call, call)
}
