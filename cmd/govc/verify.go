package main

import (
	"crypto/sha256"
	"fmt"
	"go/ast"
	"go/token"
	"go/types"
	"os"
	"sort"
	"strings"
)

// FuncResult is the outcome of generating obligations for one function.
type FuncResult struct {
	Key        string
	Name       string
	Kind       string // contract | lemma
	Pos        string
	SrcHash    string
	Missing    bool
	Rejected   string
	Obls       []*Obligation
	Notes      []string
	Trusted    []string
	Contracts  []string
	Pure       []string
	Inlined    []string
	Arith      string
	NoOverflow bool
}

func shortName(key string) string {
	k := strings.TrimPrefix(key, "github.com/synnaxlabs/")
	return k
}

func newFuncVerifier(prog *Prog, sp *FuncSpec) *FuncVerifier {
	u := newUniverse(sp.Arith == "bv")
	u.strTheory = sp.Strings
	return &FuncVerifier{prog: prog, spec: sp, u: u, initHeaps: map[string]Term{}, counters: map[string]int{},
		name: shortName(sp.Key), pureDefs: map[string]*pureDef{}, closures: map[types.Object]*closure{},
		bound: map[types.Object]Term{}, heapSorts: map[string]*Sort{}, pureUsed: map[string]bool{}, inlined: map[string]bool{}, trustedUsed: map[string]bool{}, contractUsed: map[string]bool{}}
}

func keys(m map[string]bool) []string {
	out := []string{}
	for k := range m {
		out = append(out, k)
	}
	sort.Strings(out)
	return out
}

func (fv *FuncVerifier) finish(res *FuncResult) {
	res.Obls = fv.obls
	res.Notes = keys(fv.u.notes)
	res.Trusted = keys(fv.trustedUsed)
	res.Contracts = keys(fv.contractUsed)
	res.Pure = keys(fv.pureUsed)
	res.Inlined = keys(fv.inlined)
}

func verifyFunc(prog *Prog, sp *FuncSpec) (res *FuncResult) {
	res = &FuncResult{Key: sp.Key, Name: shortName(sp.Key), Kind: "contract", Arith: sp.Arith, NoOverflow: sp.NoOvf}
	if sp.Kind == SKLemma {
		return verifyLemma(prog, sp)
	}
	fd := prog.decls[sp.Key]
	if fd == nil || fd.decl.Body == nil {
		res.Missing = true
		return
	}
	res.Pos = strings.TrimPrefix(prog.fset.Position(fd.decl.Pos()).Filename, repoRoot+"/") + fmt.Sprintf(":%d", prog.fset.Position(fd.decl.Pos()).Line)
	res.SrcHash = hashSource(prog, fd)
	fv := newFuncVerifier(prog, sp)
	fv.fd = fd
	defer func() {
		if r := recover(); r != nil {
			if u, ok := r.(unsupported); ok {
				res.Rejected = u.msg
				fv.finish(res)
				res.Obls = nil
				return
			}
			panic(r)
		}
	}()
	sig := fd.fn.Type().(*types.Signature)
	// signature must match the contract header
	if want := len(sp.Params); want != sig.Params().Len() {
		reject("contract header of %s has %d parameters, function has %d", sp.Key, want, sig.Params().Len())
	}
	if len(sp.Results) != sig.Results().Len() {
		reject("contract header of %s has %d results, function has %d", sp.Key, len(sp.Results), sig.Results().Len())
	}
	top := &frame{fd: fd, info: fd.pkg.TypesInfo, pkg: fd.pkg, top: true}
	fv.frames = []*frame{top}
	fv.loopOrdinals = map[ast.Stmt]int{}
	for i, l := range collectLoops(fd.decl.Body) {
		fv.loopOrdinals[l] = i
	}
	st := &State{vars: map[types.Object]Term{}, heaps: map[string]Term{}}
	bind := func(v *types.Var, isRecv bool) {
		s := fv.sortOf(v.Type())
		if s == nil {
			return
		}
		name := v.Name()
		if name == "" || name == "_" {
			name = "arg"
		}
		n := name + "!in"
		if fv.u.declared["in:"+n] {
			n = fv.u.freshName(name)
		}
		var t Term
		if s.Kind == KStruct {
			fv.u.declared["in:"+n] = true
			ex := fv.u.explodedConst(n+".f", s)
			fv.u.decls = append(fv.u.decls, fmt.Sprintf("(define-fun %s () %s %s)", n, s.Name, ex.S))
			t = Term{n, s}
		} else {
			fv.u.declare("in:"+n, fmt.Sprintf("(declare-const %s %s)", n, s.Name))
			t = Term{n, s}
		}
		st.vars[v] = t
		fv.assumeTyped(st, t, v.Type())
		if s.Kind == KRef && s.Key == nil {
			if isRecv {
				st.assume(mk(sortBool, "(> %s 0)", n))
				fv.u.note("method receiver assumed non-nil")
			} else {
				st.assume(mk(sortBool, "(>= %s 0)", n))
			}
			st.assume(or(eq(t, Term{"0", sortInt}), sel(fv.allocSet(st, s), t, sortBool)))
			// the object it points to is a well-typed Go value (field ranges, slice lengths)
			if pt, ok := fv.subst(v.Type()).Underlying().(*types.Pointer); ok {
				tmp := &State{vars: st.vars, heaps: st.heaps}
				fv.assumeTyped(tmp, sel(fv.heap(st, s), t, s.Elem), pt.Elem())
				for _, a := range tmp.pc {
					st.assume(implies(not(eq(t, Term{"0", sortInt})), a))
				}
			}
		}
		if s.Kind == KRef && s.Key != nil {
			st.assume(mk(sortBool, "(>= %s 0)", n))
			st.assume(or(eq(t, Term{"0", sortInt}), sel(fv.allocSet(st, s), t, sortBool)))
		}
		if s.Kind == KErr || (s.Kind == KOpaque && s.Name == "Int") {
			st.assume(mk(sortBool, "(>= %s 0)", n))
		}
	}
	if sig.Recv() != nil {
		bind(sig.Recv(), true)
	}
	for i := 0; i < sig.Params().Len(); i++ {
		bind(sig.Params().At(i), false)
	}
	for i := 0; i < sig.Results().Len(); i++ {
		r := sig.Results().At(i)
		var obj types.Object = r
		if r.Name() == "" || r.Name() == "_" {
			obj = types.NewVar(token.NoPos, fd.pkg.Types, fmt.Sprintf("ret%d", i), r.Type())
		} else if s := fv.sortOf(r.Type()); s != nil {
			st.vars[r] = fv.u.zero(s)
		}
		top.results = append(top.results, obj)
	}
	st.vars[fv.recvObj()] = intT(0)
	fv.entry = st.clone()
	// preconditions
	for _, c := range sp.Requires {
		vals := fv.entryVals()
		t := fv.evalWrapper(sp.PkgPath, c.Wrapper, vals, st, nil)
		st.assume(t)
	}
	for _, ln := range sp.UseLemmas {
		fv.assumeLemma(st, ln)
	}
	fv.entry = st.clone()
	fv.cover(st, "pre", boolT(true), "precondition is satisfiable")
	if sp.Untrusted {
		fv.setupAllocBudget()
	}
	fv.checkAliasDiscipline(fd, st)
	body := fd.decl.Body.List
	if from := strings.TrimSpace(sp.Pragmas["from"]); from != "" {
		body = fv.startFrom(fd, from, st)
		fv.entry = st.clone()
	}
	end := fv.execBlock(body, st)
	if end != nil && !endsInTerminatingLoop(fd.decl.Body) {
		fv.finishReturn(end, fd.decl.End())
	}
	fv.finish(res)
	return
}

func hashSource(prog *Prog, fd *funcDecl) string {
	p0 := prog.fset.Position(fd.decl.Pos())
	p1 := prog.fset.Position(fd.decl.End())
	data, err := os.ReadFile(p0.Filename)
	if err != nil || p1.Offset > len(data) {
		return ""
	}
	h := sha256.Sum256(data[p0.Offset:p1.Offset])
	return fmt.Sprintf("%x", h[:8])
}

func verifyLemma(prog *Prog, sp *FuncSpec) (res *FuncResult) {
	res = &FuncResult{Key: sp.Key, Name: shortName(sp.Key), Kind: "lemma", Arith: sp.Arith}
	fv := newFuncVerifier(prog, sp)
	defer func() {
		if r := recover(); r != nil {
			if u, ok := r.(unsupported); ok {
				res.Rejected = u.msg
				return
			}
			panic(r)
		}
	}()
	if len(sp.Ensures) == 0 {
		reject("lemma %s without ensures", sp.Name)
	}
	// take parameter types from the first generated wrapper
	wname := sp.Ensures[0].Wrapper
	wfd := prog.decls[sp.PkgPath+"."+wname]
	if wfd == nil {
		reject("lemma wrapper %s missing", wname)
	}
	fv.fd = wfd
	fv.frames = []*frame{{fd: wfd, info: wfd.pkg.TypesInfo, pkg: wfd.pkg, top: true}}
	sig := wfd.fn.Type().(*types.Signature)
	st := &State{vars: map[types.Object]Term{}, heaps: map[string]Term{}}
	var vals []Term
	for i := 0; i < sig.Params().Len(); i++ {
		p := sig.Params().At(i)
		s := fv.mustSort(p.Type(), "lemma parameter")
		n := p.Name() + "!in"
		var t Term
		if s.Kind == KStruct {
			ex := fv.u.explodedConst(n+".f", s)
			fv.u.decls = append(fv.u.decls, fmt.Sprintf("(define-fun %s () %s %s)", n, s.Name, ex.S))
			t = Term{n, s}
		} else {
			fv.u.declare("in:"+n, fmt.Sprintf("(declare-const %s %s)", n, s.Name))
			t = Term{n, s}
		}
		vals = append(vals, t)
		fv.assumeTyped(st, t, p.Type())
	}
	for _, c := range sp.Requires {
		st.assume(fv.evalWrapper(sp.PkgPath, c.Wrapper, vals, st, nil))
	}
	// pragma induction <param>: the lemma may be used for param-1 (induction hypothesis). Sound
	// for a typed machine integer: a counterexample n with requires(n) && !ensures(n) yields one at
	// n-1 (otherwise the hypothesis would give ensures(n-1) and the step ensures(n)), and the
	// descent cannot go below the type's minimum, where the hypothesis is vacuous.
	if ind := strings.TrimSpace(sp.Pragmas["induction"]); ind != "" {
		k := -1
		for i := 0; i < sig.Params().Len(); i++ {
			if sig.Params().At(i).Name() == ind {
				k = i
			}
		}
		if k < 0 || vals[k].Sort == nil || vals[k].Sort.Kind != KInt || !isInteger(sig.Params().At(k).Type()) {
			reject("pragma induction %s: not an integer parameter of lemma %s", ind, sp.Name)
		}
		prev := append([]Term(nil), vals...)
		prev[k] = fv.u.define(ind+"_prev", mk(sortInt, "(- %s 1)", vals[k].S))
		tmp := &State{vars: map[types.Object]Term{}, heaps: st.heaps}
		hyp := []Term{fv.u.inRange(sig.Params().At(k).Type(), prev[k])}
		for _, c := range sp.Requires {
			hyp = append(hyp, fv.evalWrapper(sp.PkgPath, c.Wrapper, prev, tmp, nil))
		}
		var concl []Term
		for _, c := range sp.Ensures {
			concl = append(concl, fv.evalWrapper(sp.PkgPath, c.Wrapper, prev, tmp, tmp))
		}
		st.assume(implies(and(hyp...), and(concl...)))
		fv.u.note("lemma %s proved by induction on %s (hypothesis assumed for %s-1)", sp.Name, ind, ind)
	}
	fv.entry = st.clone()
	fv.cover(st, "pre", boolT(true), "lemma hypothesis is satisfiable")
	for i, c := range sp.Ensures {
		t := fv.evalWrapper(sp.PkgPath, c.Wrapper, vals, st, fv.entry)
		fv.oblige(st, "lemma", fmt.Sprint(i), t, token.NoPos, c.Text)
	}
	fv.finish(res)
	return
}

// assumeLemma (use_lemma): the lemma `name` of the verified function's package, which is proved as
// its own obligation whenever the property is checked, is assumed for all values of its (integer
// or boolean) parameters: forall params :: typed(params) && requires ==> ensures.
func (fv *FuncVerifier) assumeLemma(st *State, name string) {
	lsp := fv.prog.specs[fv.spec.PkgPath+".lemma."+name]
	if lsp == nil || lsp.Kind != SKLemma || len(lsp.Ensures) == 0 {
		reject("use_lemma %s: no such lemma in %s", name, fv.spec.PkgPath)
	}
	wfd := fv.prog.decls[lsp.PkgPath+"."+lsp.Ensures[0].Wrapper]
	if wfd == nil {
		reject("use_lemma %s: wrapper missing", name)
	}
	sig := wfd.fn.Type().(*types.Signature)
	var vals []Term
	var binders []string
	var hyp []Term
	for i := 0; i < sig.Params().Len(); i++ {
		p := sig.Params().At(i)
		s := fv.mustSort(p.Type(), "lemma parameter")
		if s.Kind != KInt && s.Kind != KBool && s.Kind != KSlice && s.Kind != KStruct {
			reject("use_lemma %s: parameter %s has a sort that cannot be quantified here", name, p.Name())
		}
		if s.Kind == KSlice {
			hyp = append(hyp, mk(sortBool, "(>= %s 0)", slLen(Term{fmt.Sprintf("l!%s!%s", name, p.Name()), s}).S))
		}
		v := Term{fmt.Sprintf("l!%s!%s", name, p.Name()), s}
		binders = append(binders, fmt.Sprintf("(%s %s)", v.S, s.Name))
		vals = append(vals, v)
		if s.Kind == KInt && isInteger(p.Type()) {
			hyp = append(hyp, fv.u.inRange(p.Type(), v))
		}
	}
	tmp := &State{vars: map[types.Object]Term{}, heaps: st.heaps}
	for _, c := range lsp.Requires {
		hyp = append(hyp, fv.evalWrapper(lsp.PkgPath, c.Wrapper, vals, tmp, nil))
	}
	var concl []Term
	for _, c := range lsp.Ensures {
		concl = append(concl, fv.evalWrapper(lsp.PkgPath, c.Wrapper, vals, tmp, tmp))
	}
	if len(tmp.pc) > 0 {
		reject("use_lemma %s: clauses with side conditions", name)
	}
	st.assume(mk(sortBool, "(forall (%s) %s)", strings.Join(binders, " "), implies(and(hyp...), and(concl...)).S))
	fv.u.note("lemma %s assumed for all parameter values (proved separately: obligation %s#lemma:*)", name, shortName(lsp.Key))
	fv.contractUsed[lsp.Key] = true
}

// startFrom (pragma from <anchor>): the function is verified from the top-level statement that
// contains the anchor text, for an arbitrary state there: every local declared before it (and
// every named result) is an arbitrary well-typed value, the heap is the arbitrary initial heap, and
// the contract's `requires` (already assumed) describe that state; old() refers to it. The
// statements before the anchor are not executed and not covered (reported as an assumption).
func (fv *FuncVerifier) startFrom(fd *funcDecl, anchor string, st *State) []ast.Stmt {
	a := findAnchorStmt(fv.prog.fset, fd.decl, anchor)
	if a == nil {
		reject("pragma from: anchor %q not found in %s", anchor, fv.name)
	}
	idx := -1
	for i, s := range fd.decl.Body.List {
		if s.Pos() <= a.Pos() && a.End() <= s.End() {
			idx = i
		}
	}
	if idx < 0 {
		reject("pragma from: anchor %q is not inside a top-level statement", anchor)
	}
	start := fd.decl.Body.List[idx].Pos()
	info := fd.pkg.TypesInfo
	var objs []*types.Var
	for id, obj := range info.Defs {
		v, ok := obj.(*types.Var)
		if !ok || v.IsField() || id.Pos() < fd.decl.Body.Pos() || id.Pos() >= start {
			continue
		}
		if v.Parent() == nil || !v.Parent().Contains(start) {
			continue
		}
		objs = append(objs, v)
	}
	sig := fd.fn.Type().(*types.Signature)
	for i := 0; i < sig.Results().Len(); i++ {
		if r := sig.Results().At(i); r.Name() != "" && r.Name() != "_" {
			objs = append(objs, r)
		}
	}
	sort.Slice(objs, func(i, j int) bool { return objs[i].Pos() < objs[j].Pos() })
	for _, v := range objs {
		s := fv.sortOf(v.Type())
		if s == nil {
			continue
		}
		t := fv.u.freshConst(v.Name(), s)
		st.vars[v] = t
		fv.assumeTyped(st, t, v.Type())
	}
	fv.u.note("pragma from: verified from `%s` on, for arbitrary values of the locals declared before it; the statements before it are not covered", anchor)
	nreq := 0
	for _, ab := range fv.spec.AssertsBefore {
		if !ab.FromReq {
			continue
		}
		saved := fv.clauseCtx
		fv.clauseCtx = nil
		t := fv.evalClauseHere(ab.Clause, st, start)
		fv.clauseCtx = saved
		st.assume(t)
		nreq++
		fv.u.note("from_requires (relied on from the statements before `%s`, not verified): %s", anchor, ab.Clause.Text)
	}
	if nreq > 0 {
		fv.cover(st, "from-pre", boolT(true), "the from_requires are satisfiable")
	}
	return fd.decl.Body.List[idx:]
}

func (fv *FuncVerifier) setupAllocBudget() {
	name := fv.spec.Pragmas["alloc_budget"]
	if name == "" {
		return
	}
	fv.allocBudget = func(st *State) Term {
		return fv.evalWrapper(fv.spec.PkgPath, name, fv.entryVals(), st, fv.entry)
	}
}

// endsInTerminatingLoop: the body ends with `for { ... }` without a condition and without a break
// that refers to it - a terminating statement in the Go specification's sense, so control never
// falls off the end of the function (the state after the loop is unreachable).
func endsInTerminatingLoop(body *ast.BlockStmt) bool {
	if body == nil || len(body.List) == 0 {
		return false
	}
	last := body.List[len(body.List)-1]
	label := ""
	if ls, ok := last.(*ast.LabeledStmt); ok {
		label = ls.Label.Name
		last = ls.Stmt
	}
	fs, ok := last.(*ast.ForStmt)
	if !ok || fs.Cond != nil {
		return false
	}
	hasBreak := false
	var walk func(n ast.Node, depth int)
	walk = func(n ast.Node, depth int) {
		ast.Inspect(n, func(m ast.Node) bool {
			switch x := m.(type) {
			case *ast.FuncLit:
				return false
			case *ast.ForStmt, *ast.RangeStmt, *ast.SwitchStmt, *ast.TypeSwitchStmt, *ast.SelectStmt:
				if m != n {
					// unlabelled breaks inside refer to the inner statement
					ast.Inspect(m, func(k ast.Node) bool {
						if _, isLit := k.(*ast.FuncLit); isLit {
							return false
						}
						if b, ok := k.(*ast.BranchStmt); ok && b.Tok == token.BREAK && b.Label != nil && b.Label.Name == label {
							hasBreak = true
						}
						return true
					})
					return false
				}
			case *ast.BranchStmt:
				if x.Tok == token.BREAK && (x.Label == nil || x.Label.Name == label) {
					hasBreak = true
				}
			}
			return true
		})
	}
	walk(fs.Body, 0)
	return !hasBreak
}
