package main

import (
	"bytes"
	"context"
	"fmt"
	"os"
	"os/exec"
	"path/filepath"
	"strings"
	"sync"
	"sync/atomic"
	"syscall"
	"time"
)

type solverCfg struct {
	name string
	args func(timeoutS int, seed int, file string) []string
}

var solvers = []solverCfg{
	{"z3", func(t, seed int, f string) []string {
		return []string{"/usr/bin/z3", fmt.Sprintf("-T:%d", t), fmt.Sprintf("smt.random_seed=%d", seed), f}
	}},
	{"z3-new", func(t, seed int, f string) []string {
		return []string{"z3-new", fmt.Sprintf("-T:%d", t), fmt.Sprintf("smt.random_seed=%d", seed), f}
	}},
	{"cvc5", func(t, seed int, f string) []string {
		return []string{"/usr/bin/cvc5", fmt.Sprintf("--tlimit=%d", t*1000), fmt.Sprintf("--seed=%d", seed), "--produce-models", "--strings-exp", f}
	}},
}

type solveResult struct {
	solver string
	result string // unsat | sat | unknown | timeout | error
	out    string
	dur    float64
}

func runSolver(ctx context.Context, sc solverCfg, timeoutS, seed int, file string) solveResult {
	// The budget is CPU time (ulimit -t), not wall time: on a loaded machine (other checks, test
	// builds) a wall-clock limit cuts a solver off after a fraction of its budget and an obligation
	// that discharges in a second when the machine is idle is reported as a timeout. The solver's own
	// wall limit and the context deadline are a backstop at wallFactor times the budget.
	const wallFactor = 6
	args := sc.args(timeoutS*wallFactor, seed, file)
	t0 := time.Now()
	cctx, cancel := context.WithTimeout(ctx, time.Duration(timeoutS*wallFactor+2)*time.Second)
	defer cancel()
	sh := append([]string{"-c", fmt.Sprintf("ulimit -t %d; exec \"$@\"", timeoutS+1), "sh"}, args...)
	cmd := exec.CommandContext(cctx, "/bin/sh", sh...)
	var out bytes.Buffer
	cmd.Stdout = &out
	cmd.Stderr = &out
	_ = cmd.Run()
	cpuKilled := false
	if ps := cmd.ProcessState; ps != nil {
		if ws, ok := ps.Sys().(syscall.WaitStatus); ok && ws.Signaled() && cctx.Err() == nil {
			cpuKilled = true
		}
	}
	d := time.Since(t0).Seconds()
	text := out.String()
	first := ""
	for _, ln := range strings.Split(text, "\n") {
		ln = strings.TrimSpace(ln)
		if ln == "" || strings.HasPrefix(ln, "WARNING") {
			continue
		}
		first = ln
		break
	}
	r := "error"
	switch {
	case strings.Contains(text, "(error"):
		r = "error"
	case first == "unsat":
		r = "unsat"
	case first == "sat":
		r = "sat"
	case first == "unknown":
		r = "unknown"
	case strings.Contains(first, "timeout") || cctx.Err() != nil || cpuKilled:
		r = "timeout"
	}
	if len(text) > 4000 {
		text = text[:4000]
	}
	return solveResult{sc.name, r, text, d}
}

// solveOne races the portfolio on one obligation.
func solveOne(o *Obligation, dir string, timeoutS, seed int, needTwo bool) {
	file := filepath.Join(dir, sanitize(o.Name)+".smt2")
	if err := os.WriteFile(file, []byte(o.SMT), 0o644); err != nil {
		o.Result = "error"
		o.Output = err.Error()
		return
	}
	o.File = file
	if o.Expect == "sat" && timeoutS > 2 {
		timeoutS = 2 // covers are vacuity guards: inconclusive is acceptable, only unsat fails
	}
	ctx, cancel := context.WithCancel(context.Background())
	defer cancel()
	// Portfolio: every solver with the run's seed; if nobody has answered after a short while the
	// same solvers are started again with two more seeds (quantifier instantiation order is seed
	// sensitive: an obligation one seed proves in 0.1 s another seed can miss within the budget).
	// For two-solver agreement only distinct solver names count.
	extraSeeds := []int{seed + 1, seed + 2}
	ch := make(chan solveResult, len(solvers)*(1+len(extraSeeds)))
	outstanding := 0
	launch := func(sd int) {
		for _, sc := range solvers {
			sc := sc
			outstanding++
			go func() { ch <- runSolver(ctx, sc, timeoutS, sd, file) }()
		}
	}
	launch(seed)
	stage2 := time.After(1500 * time.Millisecond)
	if o.Expect == "sat" {
		stage2 = nil // covers: one seed is enough
	}
	var all []solveResult
	agree := 0
	agreed := map[string]bool{}
	var decided *solveResult
loop:
	for outstanding > 0 {
		var r solveResult
		select {
		case r = <-ch:
			outstanding--
		case <-stage2:
			stage2 = nil
			for _, sd := range extraSeeds {
				launch(sd)
			}
			continue
		}
		all = append(all, r)
		if r.result == "unsat" || r.result == "sat" {
			if decided == nil {
				rr := r
				decided = &rr
				agree = 1
				agreed[r.solver] = true
			} else if decided.result == r.result {
				if !agreed[r.solver] {
					agreed[r.solver] = true
					agree++
				}
			} else {
				// solvers disagree: report as undecided
				o.Result = "disagree"
				o.Output = decided.solver + ":" + decided.result + " vs " + r.solver + ":" + r.result
				return
			}
			if !needTwo || agree >= 2 {
				break loop
			}
		}
	}
	if decided != nil {
		o.Result, o.Solver, o.TimeS, o.Output = decided.result, decided.solver, decided.dur, decided.out
		o.Agree = agree
		if o.Expect == "sat" && o.Result == "unsat" && o.AltSMT != "" {
			// was the path already dead before this step?
			alt := &Obligation{Name: o.Name + ".before", SMT: o.AltSMT, Expect: "sat"}
			o.AltSMT = ""
			solveOne(alt, dir, timeoutS, seed, false)
			if alt.Result == "unsat" {
				o.Result = "dead-path"
			}
		}
		return
	}
	// nobody decided
	o.Result = "unknown"
	var sb strings.Builder
	for _, r := range all {
		if r.result == "timeout" {
			o.Result = "timeout"
		}
		fmt.Fprintf(&sb, "[%s] %s (%.1fs) %s\n", r.solver, r.result, r.dur, strings.SplitN(r.out, "\n", 2)[0])
		o.TimeS += r.dur
	}
	o.Output = sb.String()
}

// failFast (must-fail corpus runs on scratch copies only): once an obligation that counts as a
// violation has failed, the obligations not yet started are skipped - the run's answer is "exit 1,
// this obligation" either way, and a mutant that turns many obligations into timeouts otherwise
// costs a timeout each.
var failFast func(o *Obligation) bool

func solveAll(obls []*Obligation, dir string, timeoutS, seed int, needTwo bool, par int) {
	os.MkdirAll(dir, 0o755)
	var wg sync.WaitGroup
	var stopped atomic.Bool
	sem := make(chan struct{}, par)
	for _, o := range obls {
		o := o
		wg.Add(1)
		sem <- struct{}{}
		go func() {
			defer wg.Done()
			defer func() { <-sem }()
			if stopped.Load() {
				o.Result = "skipped"
				return
			}
			solveOne(o, dir, timeoutS, seed, needTwo)
			if failFast != nil && failFast(o) {
				stopped.Store(true)
			}
		}()
	}
	wg.Wait()
}
