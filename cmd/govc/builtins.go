package main

import (
	"fmt"
	"go/ast"
	"go/token"
	"go/types"
	"math/big"
	"strings"
)

func (fv *FuncVerifier) evalBuiltin(name string, call *ast.CallExpr, st *State) []Term {
	switch name {
	case "len":
		xt := fv.typeOf(call.Args[0])
		x := fv.eval(call.Args[0], st)
		if p, ok := xt.Underlying().(*types.Pointer); ok {
			x = fv.deref(x, st, call.Pos())
			xt = p.Elem()
		}
		var n Term
		switch {
		case x.Sort == nil:
			reject("len of unmodelled value at %s", fv.pos(call.Pos()))
		case x.Sort.Kind == KSlice:
			n = slLen(x)
		case x.Sort.Kind == KArray:
			n = intT(int64(x.Sort.Width))
		case x.Sort.Kind == KRef && x.Sort.Key != nil:
			n = ite(eq(x, Term{"0", sortInt}), intT(0), fv.mapCard(x, st))
			if fv.specMode == 0 && !fv.termMode {
				n = fv.def("card", n)
				st.assume(mk(sortBool, "(and (>= %s 0) (<= %s 72057594037927936))", n.S, n.S)) // bounded by the address space
				dom, _ := fv.mapRead(x, st)
				// card = 0 <=> empty domain
				st.assume(mk(sortBool, "(= (= %s 0) (forall ((k!c %s)) (not (select %s k!c))))", n.S, x.Sort.Key.Name, dom.S))
			}
		case x.Sort.Kind == KString:
			if fv.u.strTheory {
				n = mk(sortInt, "(str.len %s)", x.S)
			} else {
				fv.u.declare("fun:str_len", fmt.Sprintf("(declare-fun str_len (%s) Int)\n(assert (forall ((s %s)) (>= (str_len s) 0)))", x.Sort.Name, x.Sort.Name))
				n = mk(sortInt, "(str_len %s)", x.S)
			}
		default:
			reject("len of %s", x.Sort.Name)
		}
		if fv.u.bv {
			return []Term{fv.intToBV(n, 64)}
		}
		return []Term{n}
	case "cap":
		// capacities are not tracked (slices are values): cap(x) is some integer >= len(x)
		x := fv.eval(call.Args[0], st)
		if x.Sort == nil || x.Sort.Kind != KSlice || fv.specMode > 0 || fv.termMode || fv.u.bv {
			reject("cap() is not modelled at %s", fv.pos(call.Pos()))
		}
		c := fv.u.freshConst("cap", sortInt)
		st.assume(mk(sortBool, "(and (>= %s %s) (<= %s 72057594037927936))", c.S, slLen(x).S, c.S))
		fv.u.note("cap(x) is an arbitrary integer >= len(x) (capacities are not tracked)")
		return []Term{c}
	case "min", "max":
		t := fv.typeOf(call)
		acc := fv.evalTo(call.Args[0], t, st)
		for _, a := range call.Args[1:] {
			y := fv.evalTo(a, t, st)
			op := token.LEQ
			if name == "max" {
				op = token.GEQ
			}
			acc = ite(fv.cmp(op, acc, y, t), acc, y)
		}
		return []Term{acc}
	case "append":
		st0 := fv.typeOf(call.Args[0])
		s := fv.evalTo(call.Args[0], fv.typeOf(call), st)
		if s.Sort == nil || s.Sort.Kind != KSlice {
			reject("append to unmodelled slice at %s", fv.pos(call.Pos()))
		}
		_ = st0
		et := fv.typeOf(call).Underlying().(*types.Slice).Elem()
		if call.Ellipsis.IsValid() {
			t := fv.eval(call.Args[1], st)
			if t.Sort.Kind == KString {
				reject("append(bytes, string...)")
			}
			return []Term{fv.concat(s, t, st)}
		}
		arr, n := slArr(s), slLen(s)
		for i, a := range call.Args[1:] {
			v := fv.evalTo(a, et, st)
			arr = store(arr, mk(sortInt, "(+ %s %d)", n.S, i), v)
			if fv.specMode == 0 && !fv.termMode {
				fv.u.declare("fun:wit", "(declare-fun wit (Int) Bool)\n(assert (forall ((x Int)) (! (wit x) :pattern ((wit x)))))")
				// the position of an appended element is a candidate witness for `exists j int`
				st.assume(mk(sortBool, "(wit (+ %s %d))", n.S, i))
			}
		}
		return []Term{fv.def("app", slMk(s.Sort, arr, mk(sortInt, "(+ %s %d)", n.S, len(call.Args)-1)))}
	case "copy":
		dst := fv.eval(call.Args[0], st)
		src := fv.eval(call.Args[1], st)
		if dst.Sort == nil || src.Sort == nil || dst.Sort.Kind != KSlice || src.Sort.Kind != KSlice {
			reject("copy on unmodelled operands at %s", fv.pos(call.Pos()))
		}
		n := fv.def("cn", mk(sortInt, "(imin %s %s)", slLen(dst).S, slLen(src).S))
		narr := fv.u.freshConst("cparr", slArr(dst).Sort)
		st.assume(mk(sortBool, "(forall ((i!c Int)) (! (= (select %s i!c) (ite (and (<= 0 i!c) (< i!c %s)) (select %s i!c) (select %s i!c))) :pattern ((select %s i!c))))",
			narr.S, n.S, slArr(src).S, slArr(dst).S, narr.S))
		fv.aliasNote(call.Args[0])
		fv.assignSliceContent(call.Args[0], dst, narr, st)
		if fv.u.bv {
			return []Term{fv.intToBV(n, 64)}
		}
		return []Term{n}
	case "make":
		t := fv.typeOf(call)
		srt := fv.mustSort(t, "make")
		switch t.Underlying().(type) {
		case *types.Slice:
			n := fv.toIntIndex(fv.evalTo(call.Args[1], types.Typ[types.Int], st), fv.typeOf(call.Args[1]))
			fv.oblige(st, "safe:make", fmt.Sprint(fv.counter("make")), mk(sortBool, "(>= %s 0)", n.S), call.Pos(), "make length is non-negative")
			if fv.spec.Untrusted {
				fv.allocBound(n, srt, st, call.Pos())
			}
			zarr := mk(slArr(fv.u.zero(srt)).Sort, "((as const (Array Int %s)) %s)", srt.Elem.Name, fv.u.zero(srt.Elem).S)
			return []Term{slMk(srt, zarr, n)}
		case *types.Map:
			return []Term{fv.allocMap(srt, st)}
		}
		reject("make(%s) at %s", t, fv.pos(call.Pos()))
	case "new":
		t := fv.typeOf(call).Underlying().(*types.Pointer).Elem()
		srt := fv.mustSort(t, "new")
		return []Term{fv.alloc(fv.u.zero(srt), st)}
	case "delete":
		m := fv.eval(call.Args[0], st)
		mt := fv.typeOf(call.Args[0]).Underlying().(*types.Map)
		k := fv.evalTo(call.Args[1], mt.Key(), st)
		// delete on a nil map is a no-op
		base := len(st.pc)
		a := st.clone()
		a.assume(not(eq(m, Term{"0", sortInt})))
		fv.mapDelete(m, k, a)
		b := st.clone()
		b.assume(eq(m, Term{"0", sortInt}))
		*st = *fv.mergeStates([]*State{a, b}, base)
		return nil
	case "panic":
		if !fv.spec.AllowPanic && !fv.inAllowedPanic() {
			fv.oblige(st, "safe:panic", fmt.Sprint(fv.counter("panic")), boolT(false), call.Pos(), "explicit panic is unreachable")
		}
		st.assume(boolT(false))
		return nil
	case "print", "println":
		return nil
	}
	reject("builtin %s at %s", name, fv.pos(call.Pos()))
	return nil
}

func (fv *FuncVerifier) inAllowedPanic() bool {
	fr := fv.frame()
	if fr.fd != nil {
		if sp := fv.prog.specs[fr.fd.key]; sp != nil && sp.AllowPanic {
			return true
		}
	}
	return false
}

func (fv *FuncVerifier) intToBV(n Term, w int) Term {
	if n.Sort.Kind == KBV {
		return n
	}
	return mk(bvSort(w), "((_ int2bv %d) %s)", w, n.S)
}

// assignSliceContent replaces the backing array of the slice denoted by e.
func (fv *FuncVerifier) assignSliceContent(e ast.Expr, cur Term, narr Term, st *State) {
	e = ast.Unparen(e)
	if se, ok := e.(*ast.SliceExpr); ok {
		// copy(x[a:b], src): the view's new content is written back into x at offset a
		base := fv.eval(se.X, st)
		if base.Sort == nil || base.Sort.Kind != KSlice {
			reject("copy into a slice of a non-slice at %s", fv.pos(se.Pos()))
		}
		lo := intT(0)
		if se.Low != nil {
			lo = fv.toIntIndex(fv.evalTo(se.Low, types.Typ[types.Int], st), fv.typeOf(se.Low))
		}
		n := slLen(cur)
		wb := fv.u.freshConst("wb", slArr(base).Sort)
		st.assume(mk(sortBool, "(forall ((i!c Int)) (! (= (select %s i!c) (ite (and (<= %s i!c) (< i!c (+ %s %s))) (select %s (- i!c %s)) (select %s i!c))) :pattern ((select %s i!c))))",
			wb.S, lo.S, lo.S, n.S, narr.S, lo.S, slArr(base).S, wb.S))
		fv.assign(se.X, slMk(base.Sort, wb, slLen(base)), st)
		return
	}
	fv.assign(e, slMk(cur.Sort, narr, slLen(cur)), st)
}

// byteOrderPut models order.PutUintN(b, v): the N/8 bytes of b (a slice or a view x[lo:hi])
// become the byte image of v under that order; byteOrderGet is the inverse.
func byteOrderPut(nbytes int) model {
	return model{pure: false, fn: func(fv *FuncVerifier, call *ast.CallExpr, args []Term, st *State) []Term {
		order, v := args[0], args[2]
		fn := fv.byteFuncs(nbytes)
		if order.Sort == nil {
			order = Term{"0", sortInt}
		} else if order.Sort.Kind == KStruct {
			order = Term{"bo_le", sortInt} // the concrete binary.LittleEndian value
		}
		target := ast.Unparen(call.Args[0])
		lo := intT(0)
		var rootExpr ast.Expr = target
		if se, ok := target.(*ast.SliceExpr); ok {
			rootExpr = se.X
			if se.Low != nil {
				lo = fv.toIntIndex(fv.evalTo(se.Low, types.Typ[types.Int], st), fv.typeOf(se.Low))
			}
		}
		view := args[1]
		fv.oblige(st, "safe:idx", fmt.Sprint(fv.counter("idx")), mk(sortBool, "(>= %s %d)", slLen(view).S, nbytes), call.Pos(), fmt.Sprintf("PutUint%d needs %d bytes", nbytes*8, nbytes))
		base := fv.eval(rootExpr, st)
		var arr Term
		if base.Sort.Kind == KSlice {
			arr = slArr(base)
		} else {
			arr = base
		}
		for k := 0; k < nbytes; k++ {
			arr = store(arr, mk(sortInt, "(+ %s %d)", lo.S, k), mk(sortInt, "(%s %s %s %d)", fn.put, order.S, v.S, k))
		}
		if base.Sort.Kind == KSlice {
			fv.assign(rootExpr, slMk(base.Sort, arr, slLen(base)), st)
		} else {
			fv.assign(rootExpr, arr, st)
		}
		return nil
	}}
}

func byteOrderGet(nbytes int) model {
	return model{pure: true, fn: func(fv *FuncVerifier, call *ast.CallExpr, args []Term, st *State) []Term {
		order, view := args[0], args[1]
		fn := fv.byteFuncs(nbytes)
		if order.Sort == nil {
			order = Term{"0", sortInt}
		} else if order.Sort.Kind == KStruct {
			order = Term{"bo_le", sortInt}
		}
		fv.oblige(st, "safe:idx", fmt.Sprint(fv.counter("idx")), mk(sortBool, "(>= %s %d)", slLen(view).S, nbytes), call.Pos(), fmt.Sprintf("Uint%d needs %d bytes", nbytes*8, nbytes))
		var bs []string
		for k := 0; k < nbytes; k++ {
			bs = append(bs, slAt(view, intT(int64(k))).S)
		}
		r := mk(sortInt, "(%s %s %s)", fn.get, order.S, strings.Join(bs, " "))
		return []Term{r}
	}}
}

type byteFn struct{ put, get string }

// byteFuncs declares put/get for N bytes with the round-trip axiom, and the concrete
// little-endian meaning for binary.LittleEndian.
func (fv *FuncVerifier) byteFuncs(n int) byteFn {
	if fv.u.bv {
		reject("byte order models are defined for arith int")
	}
	put, get := fmt.Sprintf("bo_put%d", n*8), fmt.Sprintf("bo_get%d", n*8)
	if !fv.u.declared["fun:"+put] {
		var ps, gs, le []string
		for k := 0; k < n; k++ {
			ps = append(ps, "Int")
			gs = append(gs, fmt.Sprintf("(%s o v %d)", put, k))
			le = append(le, fmt.Sprintf("(= (%s bo_le v %d) (mod (div v %s) 256))", put, k, new(big.Int).Lsh(big.NewInt(1), uint(8*k)).String()))
		}
		lim := new(big.Int).Lsh(big.NewInt(1), uint(8*n)).String()
		var bvars, bnames []string
		for k := 0; k < n; k++ {
			bvars = append(bvars, fmt.Sprintf("(b%d Int)", k))
			bnames = append(bnames, fmt.Sprintf("b%d", k))
		}
		defer func() {
			fv.u.decls = append(fv.u.decls, fmt.Sprintf("(assert (forall ((o Int) %s) (! (and (<= 0 (%s o %s)) (< (%s o %s) %s)) :pattern ((%s o %s)))))",
				strings.Join(bvars, " "), get, strings.Join(bnames, " "), get, strings.Join(bnames, " "), lim, get, strings.Join(bnames, " ")))
		}()
		fv.u.declare("const:bo_le", "(declare-const bo_le Int)")
		fv.u.declare("fun:"+put, fmt.Sprintf("(declare-fun %s (Int Int Int) Int)\n(declare-fun %s (Int %s) Int)\n"+
			"(assert (forall ((o Int) (v Int) (k Int)) (! (and (<= 0 (%s o v k)) (<= (%s o v k) 255)) :pattern ((%s o v k)))))\n"+
			"(assert (forall ((o Int) (v Int)) (! (=> (and (<= 0 v) (< v %s)) (= (%s o %s) v)) :pattern ((%s o v 0)))))\n"+
			"(assert (forall ((v Int)) (! (=> (and (<= 0 v) (< v %s)) (and %s)) :pattern ((%s bo_le v 0)))))",
			put, get, strings.Join(ps, " "), put, put, put, lim, get, strings.Join(gs, " "), put, lim, strings.Join(le, " "), put))
		fv.u.note("encoding/binary byte orders modelled by uninterpreted put/get with the round-trip axiom; binary.LittleEndian has its concrete meaning")
	}
	return byteFn{put, get}
}

// concat models append(s, t...).
func (fv *FuncVerifier) concat(s, t Term, st *State) Term {
	if fv.specMode > 0 || fv.termMode {
		reject("append(s, t...) inside a specification")
	}
	r := fv.u.freshConst("cat", s.Sort)
	st.assume(mk(sortBool, "(= %s (+ %s %s))", slLen(r).S, slLen(s).S, slLen(t).S))
	st.assume(mk(sortBool, "(forall ((i!c Int)) (! (=> (and (<= 0 i!c) (< i!c %s)) (= (select %s i!c) (select %s i!c))) :pattern ((select %s i!c))))",
		slLen(s).S, slArr(r).S, slArr(s).S, slArr(r).S))
	st.assume(mk(sortBool, "(forall ((i!c Int)) (! (=> (and (<= 0 i!c) (< i!c %s)) (= (select %s (+ %s i!c)) (select %s i!c))) :pattern ((select %s i!c))))",
		slLen(t).S, slArr(r).S, slLen(s).S, slArr(t).S, slArr(t).S))
	// second form triggered on reads of r
	st.assume(mk(sortBool, "(forall ((i!c Int)) (! (=> (and (<= %s i!c) (< i!c %s)) (= (select %s i!c) (select %s (- i!c %s)))) :pattern ((select %s i!c))))",
		slLen(s).S, slLen(r).S, slArr(r).S, slArr(t).S, slLen(s).S, slArr(r).S))
	return r
}

// allocBound: for functions marked untrusted_input every allocation must be
// bounded by the specification function alloc_budget (declared by the contract).
func (fv *FuncVerifier) allocBound(n Term, srt *Sort, st *State, p token.Pos) {
	b, ok := fv.spec.Pragmas["alloc_budget"]
	if !ok {
		reject("untrusted_input function needs pragma alloc_budget <wrapper>")
	}
	_ = b
	if fv.allocBudget == nil {
		reject("alloc budget not initialised")
	}
	fv.oblige(st, "safe:alloc", fmt.Sprint(fv.counter("alloc")), mk(sortBool, "(<= %s %s)", n.S, fv.allocBudget(st).S), p, "allocation is bounded by the remaining input")
}

// ---------------------------------------------------------------- library models

type model struct {
	pure bool
	fn   func(fv *FuncVerifier, call *ast.CallExpr, args []Term, st *State) []Term
}

var builtinModels map[string]model

func init() {
	contains := model{pure: true, fn: func(fv *FuncVerifier, call *ast.CallExpr, args []Term, st *State) []Term {
		s, v := args[0], args[1]
		return []Term{mk(sortBool, "(exists ((i!c Int)) (and (<= 0 i!c) (< i!c %s) (= (select %s i!c) %s)))", slLen(s).S, slArr(s).S, v.S)}
	}}
	newErr := model{pure: false, fn: func(fv *FuncVerifier, call *ast.CallExpr, args []Term, st *State) []Term {
		e := fv.u.freshConst("err", &Sort{Name: "Int", Kind: KErr})
		st.assume(mk(sortBool, "(and (> %s 0) (= (err_root %s) %s))", e.S, e.S, e.S))
		return []Term{e}
	}}
	// wrap(err, ...): nil iff err nil, same root
	wrapAt := func(ix int) model {
		return model{pure: false, fn: func(fv *FuncVerifier, call *ast.CallExpr, args []Term, st *State) []Term {
			in := args[ix]
			if in.Sort == nil {
				reject("error wrapper with unmodelled argument")
			}
			e := fv.u.freshConst("werr", &Sort{Name: "Int", Kind: KErr})
			st.assume(mk(sortBool, "(and (= (= %s 0) (= %s 0)) (>= %s 0) (= (err_root %s) (err_root %s)))", e.S, in.S, e.S, e.S, in.S))
			return []Term{e}
		}}
	}
	wrapErr := wrapAt(0)
	isErr := model{pure: true, fn: func(fv *FuncVerifier, call *ast.CallExpr, args []Term, st *State) []Term {
		return []Term{errIs(args[0], args[1])}
	}}
	clone := model{pure: true, fn: func(fv *FuncVerifier, call *ast.CallExpr, args []Term, st *State) []Term {
		return []Term{args[0]}
	}}
	strPred := func(op string, swap bool) model {
		return model{pure: true, fn: func(fv *FuncVerifier, call *ast.CallExpr, args []Term, st *State) []Term {
			if !fv.u.strTheory {
				reject("strings.%s needs `theory strings`", op)
			}
			a, b := args[0], args[1]
			if swap {
				a, b = b, a
			}
			return []Term{mk(sortBool, "(%s %s %s)", op, a.S, b.S)}
		}}
	}
	builtinModels = map[string]model{
		"strings.HasPrefix": strPred("str.prefixof", true),
		"strings.HasSuffix": strPred("str.suffixof", true),
		"strings.Contains":  strPred("str.contains", false),
		// lo.FindIndexOf(s, pred): (s[i], i, true) for some i with pred(s[i]), or (zero, -1, false) if none
		"github.com/samber/lo.FindIndexOf": {pure: false, fn: func(fv *FuncVerifier, call *ast.CallExpr, args []Term, st *State) []Term {
			lit, ok := ast.Unparen(call.Args[1]).(*ast.FuncLit)
			if !ok || len(lit.Body.List) != 1 {
				reject("lo.FindIndexOf needs a single-return predicate literal at %s", fv.pos(call.Pos()))
			}
			ret, ok := lit.Body.List[0].(*ast.ReturnStmt)
			if !ok || len(ret.Results) != 1 {
				reject("lo.FindIndexOf needs a single-return predicate literal at %s", fv.pos(call.Pos()))
			}
			src := args[0]
			var pname *ast.Ident
			for _, f := range lit.Type.Params.List {
				if len(f.Names) > 0 {
					pname = f.Names[0]
				}
			}
			predAt := func(x Term) Term {
				obj := fv.info().Defs[pname]
				old, had := fv.bound[obj]
				fv.bound[obj] = x
				fv.specMode++
				fv.quantDepth++
				t := fv.evalCond(ret.Results[0], st)
				fv.quantDepth--
				fv.specMode--
				if had {
					fv.bound[obj] = old
				} else {
					delete(fv.bound, obj)
				}
				return t
			}
			idx := fv.u.freshConst("fidx", sortInt)
			found := fv.u.freshConst("ffound", sortBool)
			elem := fv.u.freshConst("felem", src.Sort.Elem)
			st.assume(implies(found, and(mk(sortBool, "(<= 0 %s)", idx.S), mk(sortBool, "(< %s %s)", idx.S, slLen(src).S), eq(elem, slAt(src, idx)), predAt(slAt(src, idx)))))
			st.assume(implies(not(found), and(eq(idx, intT(-1)), mk(sortBool, "(forall ((i!f Int)) (=> (and (<= 0 i!f) (< i!f %s)) (not %s)))", slLen(src).S, predAt(slAt(src, Term{"i!f", sortInt})).S))))
			return []Term{elem, idx, found}
		}},
		"encoding/binary.ByteOrder.PutUint16":    byteOrderPut(2),
		"encoding/binary.ByteOrder.PutUint32":    byteOrderPut(4),
		"encoding/binary.ByteOrder.PutUint64":    byteOrderPut(8),
		"encoding/binary.ByteOrder.Uint16":       byteOrderGet(2),
		"encoding/binary.ByteOrder.Uint32":       byteOrderGet(4),
		"encoding/binary.ByteOrder.Uint64":       byteOrderGet(8),
		"encoding/binary.littleEndian.PutUint16": byteOrderPut(2),
		"encoding/binary.littleEndian.PutUint32": byteOrderPut(4),
		"encoding/binary.littleEndian.PutUint64": byteOrderPut(8),
		"encoding/binary.littleEndian.Uint16":    byteOrderGet(2),
		"encoding/binary.littleEndian.Uint32":    byteOrderGet(4),
		"encoding/binary.littleEndian.Uint64":    byteOrderGet(8),
		// ctx.Err(): a deterministic function of the context (nil or the cancellation error)
		// derived contexts: a new context value and a cancel function (an opaque function value)
		"context.WithTimeout":  {pure: false, fn: derivedContext},
		"context.WithCancel":   {pure: false, fn: derivedContext},
		"context.WithDeadline": {pure: false, fn: derivedContext},
		"context.Context.Err": {pure: true, fn: func(fv *FuncVerifier, call *ast.CallExpr, args []Term, st *State) []Term {
			fv.u.declare("fun:ctx_err", "(declare-fun ctx_err (Int) Int)\n(assert (forall ((c Int)) (>= (ctx_err c) 0)))")
			c := args[0]
			if c.Sort == nil {
				c = Term{"0", sortInt}
			}
			fv.u.note("ctx.Err() modelled as a deterministic function of the context value")
			return []Term{mk(&Sort{Name: "Int", Kind: KErr}, "(ctx_err %s)", c.S)}
		}},
		// slices.BinarySearch(s, x): a hit is a real occurrence; a miss proves absence only for a sorted slice
		"slices.BinarySearch": {pure: false, fn: func(fv *FuncVerifier, call *ast.CallExpr, args []Term, st *State) []Term {
			sl, x := args[0], args[1]
			pos := fv.u.freshConst("bspos", sortInt)
			found := fv.u.freshConst("bsfound", sortBool)
			st.assume(mk(sortBool, "(and (<= 0 %s) (<= %s %s))", pos.S, pos.S, slLen(sl).S))
			st.assume(implies(found, and(mk(sortBool, "(< %s %s)", pos.S, slLen(sl).S), eq(slAt(sl, pos), x))))
			if sl.Sort.Elem.Kind == KInt {
				sorted := mk(sortBool, "(forall ((i!b Int) (j!b Int)) (=> (and (<= 0 i!b) (< i!b j!b) (< j!b %s)) (<= (select %s i!b) (select %s j!b))))", slLen(sl).S, slArr(sl).S, slArr(sl).S)
				absent := mk(sortBool, "(forall ((i!b Int)) (=> (and (<= 0 i!b) (< i!b %s)) (not (= (select %s i!b) %s))))", slLen(sl).S, slArr(sl).S, x.S)
				st.assume(implies(and(sorted, not(found)), absent))
			}
			return []Term{pos, found}
		}},
		// first index of v in s, or -1
		"github.com/samber/lo.IndexOf": {pure: false, fn: func(fv *FuncVerifier, call *ast.CallExpr, args []Term, st *State) []Term {
			sl, v := args[0], args[1]
			r := fv.u.freshConst("idxof", sortInt)
			st.assume(mk(sortBool, "(and (<= (- 1) %s) (< %s %s))", r.S, r.S, slLen(sl).S))
			st.assume(mk(sortBool, "(=> (>= %s 0) (= (select %s %s) %s))", r.S, slArr(sl).S, r.S, v.S))
			st.assume(mk(sortBool, "(forall ((i!c Int)) (! (=> (and (<= 0 i!c) (< i!c %s) (or (< %s 0) (< i!c %s))) (not (= (select %s i!c) %s))) :pattern ((select %s i!c))))",
				slLen(sl).S, r.S, r.S, slArr(sl).S, v.S, slArr(sl).S))
			return []Term{r}
		}},
		// lo.Ternary(c, a, b): both operands are already evaluated (Go call semantics)
		"github.com/samber/lo.Ternary": {pure: true, fn: func(fv *FuncVerifier, call *ast.CallExpr, args []Term, st *State) []Term {
			return []Term{ite(args[0], args[1], args[2])}
		}},
		"slices.Contains":                           contains,
		"github.com/samber/lo.Contains":             contains,
		"slices.Clone":                              clone,
		"errors.New":                                newErr,
		"fmt.Errorf":                                newErr,
		"github.com/synnaxlabs/x/errors.New":        newErr,
		"github.com/synnaxlabs/x/errors.Newf":       newErr,
		"github.com/cockroachdb/errors.New":         newErr,
		"github.com/cockroachdb/errors.Newf":        newErr,
		"github.com/synnaxlabs/x/errors.Wrap":       wrapErr,
		"github.com/synnaxlabs/x/errors.Wrapf":      wrapErr,
		"github.com/synnaxlabs/x/errors.WithStack":  wrapErr,
		"github.com/synnaxlabs/alamos.Span.Error":   wrapAt(1),
		"github.com/synnaxlabs/alamos.Span.EndWith": wrapAt(1),
		"github.com/synnaxlabs/x/errors.Combine": {pure: false, fn: func(fv *FuncVerifier, call *ast.CallExpr, args []Term, st *State) []Term {
			a, b := args[0], args[1]
			e := fv.u.freshConst("cerr", &Sort{Name: "Int", Kind: KErr})
			st.assume(mk(sortBool, "(and (>= %s 0) (= (= %s 0) (and (= %s 0) (= %s 0))) (= (err_root %s) (ite (= %s 0) (err_root %s) (err_root %s))))", e.S, e.S, a.S, b.S, e.S, a.S, b.S, a.S))
			return []Term{e}
		}},
		"errors.Is":                         isErr,
		"github.com/synnaxlabs/x/errors.Is": isErr,
		// Skip(err, refs...): nil if err matches one of refs, else err
		"github.com/synnaxlabs/x/errors.Skip": {pure: true, fn: func(fv *FuncVerifier, call *ast.CallExpr, args []Term, st *State) []Term {
			e := args[0]
			var any []Term
			for _, r := range args[1:] {
				any = append(any, errIs(e, r))
			}
			return []Term{ite(or(any...), Term{"0", e.Sort}, e)}
		}},
		// lo.Map(s, func(x T, i int) R { return e }): r with len(r) == len(s) and r[i] == e[x:=s[i]]
		"github.com/samber/lo.Map": {pure: false, fn: func(fv *FuncVerifier, call *ast.CallExpr, args []Term, st *State) []Term {
			lit, ok := ast.Unparen(call.Args[1]).(*ast.FuncLit)
			if !ok || len(lit.Body.List) != 1 {
				reject("lo.Map needs a single-return function literal at %s", fv.pos(call.Pos()))
			}
			ret, ok := lit.Body.List[0].(*ast.ReturnStmt)
			if !ok || len(ret.Results) != 1 {
				reject("lo.Map needs a single-return function literal at %s", fv.pos(call.Pos()))
			}
			src := args[0]
			rs := fv.mustSort(fv.typeOf(call), "lo.Map result")
			r := fv.u.freshConst("mapped", rs)
			st.assume(mk(sortBool, "(= %s %s)", slLen(r).S, slLen(src).S))
			// bind the literal's parameters to s[i] and i
			var names []*ast.Ident
			for _, f := range lit.Type.Params.List {
				names = append(names, f.Names...)
			}
			saved := map[types.Object]Term{}
			bindTmp := func(id *ast.Ident, v Term) {
				if id == nil || id.Name == "_" {
					return
				}
				obj := fv.info().Defs[id]
				if old, ok := fv.bound[obj]; ok {
					saved[obj] = old
				}
				fv.bound[obj] = v
			}
			iv := Term{"i!m", sortInt}
			if len(names) > 0 {
				bindTmp(names[0], slAt(src, iv))
			}
			if len(names) > 1 {
				bindTmp(names[1], iv)
			}
			fv.specMode++
			fv.quantDepth++
			body := fv.evalTo(ret.Results[0], fv.typeOf(call).Underlying().(*types.Slice).Elem(), st)
			fv.quantDepth--
			fv.specMode--
			for _, id := range names {
				if id.Name == "_" {
					continue
				}
				obj := fv.info().Defs[id]
				if old, ok := saved[obj]; ok {
					fv.bound[obj] = old
				} else {
					delete(fv.bound, obj)
				}
			}
			st.assume(mk(sortBool, "(forall ((i!m Int)) (! (=> (and (<= 0 i!m) (< i!m %s)) (= (select %s i!m) %s)) :pattern ((select %s i!m))))", slLen(src).S, slArr(r).S, body.S, slArr(r).S))
			return []Term{r}
		}},
		// maps.Copy(dst, src): dst gets every entry of src (src wins)
		"maps.Copy": {pure: false, fn: func(fv *FuncVerifier, call *ast.CallExpr, args []Term, st *State) []Term {
			dst, src := args[0], args[1]
			if dst.Sort == nil || src.Sort == nil || dst.Sort.Kind != KRef || dst.Sort.Key == nil {
				reject("maps.Copy on unmodelled maps")
			}
			sdom, sval := fv.mapRead(src, st)
			ddom, dval := fv.mapRead(dst, st)
			cs := fv.u.mapContentSort(dst.Sort)
			// copying from a nil/empty map into a nil map is fine; a non-empty source needs a non-nil destination
			fv.oblige(st, "safe:nilmap", fmt.Sprint(fv.counter("nilmap")), or(not(eq(dst, Term{"0", sortInt})), mk(sortBool, "(forall ((k!c %s)) (not (select %s k!c)))", dst.Sort.Key.Name, sdom.S)), call.Pos(), "maps.Copy into a non-nil map")
			ndom := fv.u.freshConst("cpdom", cs.Fields[0].Sort)
			nval := fv.u.freshConst("cpval", cs.Fields[1].Sort)
			ncard := fv.u.freshConst("cpcard", sortInt)
			st.assume(mk(sortBool, "(forall ((k!c %s)) (! (= (select %s k!c) (or (select %s k!c) (select %s k!c))) :pattern ((select %s k!c))))", dst.Sort.Key.Name, ndom.S, ddom.S, sdom.S, ndom.S))
			st.assume(mk(sortBool, "(forall ((k!c %s)) (! (= (select %s k!c) (ite (select %s k!c) (select %s k!c) (select %s k!c))) :pattern ((select %s k!c))))", dst.Sort.Key.Name, nval.S, sdom.S, sval.S, dval.S, nval.S))
			st.assume(mk(sortBool, "(and (>= %s 0) (= (= %s 0) (forall ((k!c %s)) (not (select %s k!c)))))", ncard.S, ncard.S, dst.Sort.Key.Name, ndom.S))
			base := len(st.pc)
			a := st.clone()
			a.assume(not(eq(dst, Term{"0", sortInt})))
			h := fv.heap(a, dst.Sort)
			fv.setHeap(a, dst.Sort, store(h, dst, mk(cs, "(mk_%s %s %s %s)", cs.Name, ndom.S, nval.S, ncard.S)))
			b := st.clone()
			b.assume(eq(dst, Term{"0", sortInt}))
			*st = *fv.mergeStates([]*State{a, b}, base)
			return nil
		}},
		// cmp.Compare over an ordered type: -1, 0 or +1 by the (uninterpreted, total) order
		"cmp.Compare": {pure: true, fn: func(fv *FuncVerifier, call *ast.CallExpr, args []Term, st *State) []Term {
			t := fv.typeOf(call.Args[0])
			return []Term{ite(fv.cmp(token.LSS, args[0], args[1], t), intT(-1), ite(fv.cmp(token.LSS, args[1], args[0], t), intT(1), intT(0)))}
		}},
		"slices.Insert": {pure: false, fn: func(fv *FuncVerifier, call *ast.CallExpr, args []Term, st *State) []Term {
			if len(args) != 3 || call.Ellipsis.IsValid() {
				reject("slices.Insert with other than one inserted value")
			}
			s, i, v := args[0], args[1], args[2]
			fv.oblige(st, "safe:slice", fmt.Sprint(fv.counter("slice")), and(mk(sortBool, "(<= 0 %s)", i.S), mk(sortBool, "(<= %s %s)", i.S, slLen(s).S)), call.Pos(), "slices.Insert index in range")
			r := fv.u.freshConst("ins", s.Sort)
			st.assume(mk(sortBool, "(= %s (+ %s 1))", slLen(r).S, slLen(s).S))
			st.assume(mk(sortBool, "(forall ((k!c Int)) (! (= (select %s k!c) (ite (< k!c %s) (select %s k!c) (ite (= k!c %s) %s (select %s (- k!c 1))))) :pattern ((select %s k!c))))",
				slArr(r).S, i.S, slArr(s).S, i.S, v.S, slArr(s).S, slArr(r).S))
			// the same fact seen from the source: every old element has a place in the result
			st.assume(mk(sortBool, "(forall ((k!c Int)) (! (and (=> (and (<= 0 k!c) (< k!c %s)) (= (select %s k!c) (select %s k!c))) (=> (and (<= %s k!c) (< k!c %s)) (= (select %s (+ k!c 1)) (select %s k!c)))) :pattern ((select %s k!c))))",
				i.S, slArr(r).S, slArr(s).S, i.S, slLen(s).S, slArr(r).S, slArr(s).S, slArr(s).S))
			return []Term{r}
		}},
		// slices.SortFunc(s, cmp): sorts in place. Modelled as: s becomes some permutation of itself
		// (same length, every old element has a place in the result and vice versa). The order
		// established by cmp is NOT modelled: claims must not depend on it.
		"slices.SortFunc": {pure: false, fn: func(fv *FuncVerifier, call *ast.CallExpr, args []Term, st *State) []Term {
			s := args[0]
			if s.Sort == nil || s.Sort.Kind != KSlice {
				reject("slices.SortFunc over an unmodelled slice at %s", fv.pos(call.Pos()))
			}
			r := fv.u.freshConst("sorted", s.Sort)
			st.assume(mk(sortBool, "(= %s %s)", slLen(r).S, slLen(s).S))
			st.assume(mk(sortBool, "(forall ((k!c Int)) (! (=> (and (<= 0 k!c) (< k!c %s)) (exists ((j!c Int)) (and (<= 0 j!c) (< j!c %s) (= (select %s k!c) (select %s j!c))))) :pattern ((select %s k!c))))",
				slLen(r).S, slLen(s).S, slArr(r).S, slArr(s).S, slArr(r).S))
			st.assume(mk(sortBool, "(forall ((k!c Int)) (! (=> (and (<= 0 k!c) (< k!c %s)) (exists ((j!c Int)) (and (<= 0 j!c) (< j!c %s) (= (select %s j!c) (select %s k!c))))) :pattern ((select %s k!c))))",
				slLen(s).S, slLen(r).S, slArr(r).S, slArr(s).S, slArr(s).S))
			fv.assign(call.Args[0], r, st)
			fv.u.note("slices.SortFunc modelled as an arbitrary permutation (the order it establishes is not modelled)")
			return nil
		}},
		"slices.Delete": {pure: false, fn: func(fv *FuncVerifier, call *ast.CallExpr, args []Term, st *State) []Term {
			s, i, j := args[0], args[1], args[2]
			fv.oblige(st, "safe:slice", fmt.Sprint(fv.counter("slice")), and(mk(sortBool, "(<= 0 %s)", i.S), mk(sortBool, "(<= %s %s)", i.S, j.S), mk(sortBool, "(<= %s %s)", j.S, slLen(s).S)), call.Pos(), "slices.Delete range in bounds")
			r := fv.u.freshConst("del", s.Sort)
			st.assume(mk(sortBool, "(= %s (- %s (- %s %s)))", slLen(r).S, slLen(s).S, j.S, i.S))
			st.assume(mk(sortBool, "(forall ((k!c Int)) (! (= (select %s k!c) (ite (< k!c %s) (select %s k!c) (select %s (+ k!c (- %s %s))))) :pattern ((select %s k!c))))",
				slArr(r).S, i.S, slArr(s).S, slArr(s).S, j.S, i.S, slArr(r).S))
			// the same fact seen from the source: every surviving element has a place in the result
			st.assume(mk(sortBool, "(forall ((k!c Int)) (! (and (=> (and (<= 0 k!c) (< k!c %s)) (= (select %s k!c) (select %s k!c))) (=> (and (<= %s k!c) (< k!c %s)) (= (select %s (- k!c (- %s %s))) (select %s k!c)))) :pattern ((select %s k!c))))",
				i.S, slArr(r).S, slArr(s).S, j.S, slLen(s).S, slArr(r).S, j.S, i.S, slArr(s).S, slArr(s).S))
			return []Term{r}
		}},
	}
	// the ignore list must not shadow the error models
	delete(ignoredFuncs, "fmt.Errorf")
}

func derivedContext(fv *FuncVerifier, call *ast.CallExpr, args []Term, st *State) []Term {
	c := fv.u.freshConst("ctx", &Sort{Name: "Int", Kind: KOpaque})
	st.assume(mk(sortBool, "(>= %s 0)", c.S))
	return []Term{c, {}}
}

// ---------------------------------------------------------------- range over maps

func (fv *FuncVerifier) execRangeMap(s *ast.RangeStmt, ls *LoopSpec, ord int, label string, st *State, kObj, vObj types.Object) *State {
	m := fv.eval(s.X, st)
	if m.Sort == nil || m.Sort.Kind != KRef || m.Sort.Key == nil {
		reject("range over unmodelled map at %s", fv.pos(s.Pos()))
	}
	dom0, val0 := fv.mapRead(m, st)
	dom0 = fv.u.defineConst("dom0", ite(eq(m, Term{"0", sortInt}), mk(dom0.Sort, "((as const %s) false)", dom0.Sort.Name), dom0))
	val0 = fv.def("val0", val0)
	seenSort := dom0.Sort
	seen := types.NewVar(s.Pos(), nil, "seen", types.Typ[types.Bool])
	curKey := types.NewVar(s.Pos(), nil, "rk", types.Typ[types.Int])
	st.vars[seen] = mk(seenSort, "((as const %s) false)", seenSort.Name)
	// __rc(n) of a map range loop: the number of completed iterations. The loop visits every key
	// of the entry-time key set exactly once, so the count stays below len(map) while the loop
	// runs and equals it at exit.
	cnt := types.NewVar(s.Pos(), nil, "rcount", types.Typ[types.Int])
	st.vars[cnt] = Term{"0", sortInt}
	card0 := fv.u.defineConst("card0", ite(eq(m, Term{"0", sortInt}), Term{"0", sortInt}, fv.mapCard(m, st)))
	fv.rcStack = append(fv.rcStack, cnt)
	defer func() { fv.rcStack = fv.rcStack[:len(fv.rcStack)-1] }()
	fv.seenStack = append(fv.seenStack, seen)
	defer func() { fv.seenStack = fv.seenStack[:len(fv.seenStack)-1] }()
	fv.rmStack = append(fv.rmStack, m)
	defer func() { fv.rmStack = fv.rmStack[:len(fv.rmStack)-1] }()
	fv.u.note("range over map: invariant proved for an arbitrary unvisited key (ghost set __seen), iterating over the entry-time key set")
	cfg := &loopCfg{
		loop: s, body: s.Body, ls: ls, ord: ord, label: label, extraMods: []types.Object{seen, cnt},
		autoInv: func(st *State) Term {
			return and(mk(sortBool, "(forall ((k!c %s)) (=> (select %s k!c) (select %s k!c)))", m.Sort.Key.Name, st.vars[seen].S, dom0.S),
				mk(sortBool, "(and (<= 0 %s) (<= %s %s))", st.vars[cnt].S, st.vars[cnt].S, card0.S))
		},
		condSetup: func(st *State) Term {
			k := fv.u.freshConst("rk", m.Sort.Key)
			st.vars[curKey] = k
			return and(sel(dom0, k, sortBool), not(sel(st.vars[seen], k, sortBool)), mk(sortBool, "(< %s %s)", st.vars[cnt].S, card0.S))
		},
		exitCond: func(st *State) Term {
			return and(mk(sortBool, "(forall ((k!c %s)) (! (=> (select %s k!c) (select %s k!c)) :pattern ((select %s k!c))))", m.Sort.Key.Name, dom0.S, st.vars[seen].S, dom0.S),
				mk(sortBool, "(= %s %s)", st.vars[cnt].S, card0.S))
		},
		pre: func(st *State) {
			k := st.vars[curKey]
			if mt, ok := fv.typeOf(s.X).Underlying().(*types.Map); ok {
				fv.assumeTyped(st, k, mt.Key())
			}
			if kObj != nil {
				st.vars[kObj] = k
			}
			if vObj != nil {
				st.vars[vObj] = fv.def(vObj.Name(), sel(val0, k, m.Sort.Elem))
				fv.assumeTyped(st, st.vars[vObj], vObj.Type())
			}
		},
		post: func(st *State) *State {
			st.vars[seen] = fv.def("seen", store(st.vars[seen], st.vars[curKey], boolT(true)))
			st.vars[cnt] = fv.def("rcount", mk(sortInt, "(+ %s 1)", st.vars[cnt].S))
			return st
		},
	}
	res := fv.cutLoop(cfg, st)
	if res != nil {
		delete(res.vars, seen)
		delete(res.vars, curKey)
		delete(res.vars, cnt)
	}
	return res
}
