package main

import (
	"fmt"
	"go/ast"
	"go/token"
	"go/types"
	"sort"
	"strings"
)

// Aliasing discipline for slices (DESIGN 2.3). The value model (array, len) gives every slice
// variable its own copy of the elements; Go slices that were cut from the same backing array do
// not have one: an in-place append or element write through one of them is visible through the
// others. The model is therefore only faithful when a backing array obtained by re-slicing
// (`x[a:b]`) is written through at most one storage path. This pass finds, flow-insensitively and
// inside one function body, re-slices whose result reaches two or more different paths that are
// appended to or element-written; each such group becomes one obligation `safe:alias` whose goal
// is false (it fails whenever the function's precondition is satisfiable), i.e. a function that
// leaves the discipline is reported instead of being verified against a model that does not
// describe it. (It came from a surviving seeded change: `accepted` and `rejected` of the gossip
// ingress filter both started from `b.Operations[:0]`.)
type aliasFinding struct {
	origin string
	dests  []string
	pos    token.Pos
}

func aliasDiscipline(fd *ast.FuncDecl, info *types.Info) []aliasFinding {
	if fd.Body == nil {
		return nil
	}
	isSlice := func(e ast.Expr) bool {
		if tv, ok := info.Types[e]; ok && tv.Type != nil {
			_, ok := tv.Type.Underlying().(*types.Slice)
			return ok
		}
		return false
	}
	taint := map[string]string{} // storage path -> origin (the re-sliced expression)
	firstPos := map[string]token.Pos{}
	var origin func(e ast.Expr) string
	origin = func(e ast.Expr) string {
		e = ast.Unparen(e)
		switch x := e.(type) {
		case *ast.SliceExpr:
			if !isSlice(x) {
				return ""
			}
			if o := origin(x.X); o != "" {
				return o
			}
			o := types.ExprString(x.X)
			if _, ok := firstPos[o]; !ok {
				firstPos[o] = x.Pos()
			}
			return o
		case *ast.Ident, *ast.SelectorExpr:
			return taint[types.ExprString(e)]
		case *ast.CallExpr:
			if id, ok := ast.Unparen(x.Fun).(*ast.Ident); ok && id.Name == "append" && len(x.Args) > 0 {
				if _, isB := info.Uses[id].(*types.Builtin); isB {
					return origin(x.Args[0])
				}
			}
		}
		return ""
	}
	assign := func(lhs ast.Expr, rhs ast.Expr) bool {
		changed := false
		set := func(path, o string) {
			if o != "" && taint[path] == "" {
				taint[path] = o
				changed = true
			}
		}
		lp := types.ExprString(ast.Unparen(lhs))
		if cl, ok := ast.Unparen(rhs).(*ast.CompositeLit); ok {
			for _, el := range cl.Elts {
				if kv, ok := el.(*ast.KeyValueExpr); ok {
					if k, ok := kv.Key.(*ast.Ident); ok {
						set(lp+"."+k.Name, origin(kv.Value))
					}
				}
			}
			return changed
		}
		set(lp, origin(rhs))
		return changed
	}
	visitAssigns := func(f func(lhs, rhs ast.Expr)) {
		ast.Inspect(fd.Body, func(n ast.Node) bool {
			switch s := n.(type) {
			case *ast.AssignStmt:
				if len(s.Lhs) == len(s.Rhs) {
					for i := range s.Lhs {
						f(s.Lhs[i], s.Rhs[i])
					}
				}
			case *ast.ValueSpec:
				if len(s.Names) == len(s.Values) {
					for i := range s.Names {
						f(s.Names[i], s.Values[i])
					}
				}
			}
			return true
		})
	}
	for range 4 {
		changed := false
		visitAssigns(func(l, r ast.Expr) {
			if assign(l, r) {
				changed = true
			}
		})
		if !changed {
			break
		}
	}
	dests := map[string]map[string]bool{}
	add := func(o, path string) {
		if o == "" {
			return
		}
		if dests[o] == nil {
			dests[o] = map[string]bool{}
		}
		dests[o][path] = true
	}
	visitAssigns(func(l, r ast.Expr) {
		// P = append(P', ...): written in place when capacity allows
		if c, ok := ast.Unparen(r).(*ast.CallExpr); ok {
			if id, ok := ast.Unparen(c.Fun).(*ast.Ident); ok && id.Name == "append" && len(c.Args) > 1 {
				if _, isB := info.Uses[id].(*types.Builtin); isB {
					add(origin(c.Args[0]), types.ExprString(ast.Unparen(l)))
				}
			}
		}
		// P[i] = v
		if ix, ok := ast.Unparen(l).(*ast.IndexExpr); ok && isSlice(ix.X) {
			add(origin(ix.X), types.ExprString(ast.Unparen(ix.X)))
		}
	})
	var out []aliasFinding
	for o, ds := range dests {
		if len(ds) < 2 {
			continue
		}
		f := aliasFinding{origin: o, pos: firstPos[o]}
		for d := range ds {
			f.dests = append(f.dests, d)
		}
		sort.Strings(f.dests)
		out = append(out, f)
	}
	sort.Slice(out, func(i, j int) bool { return out[i].origin < out[j].origin })
	return out
}

func (fv *FuncVerifier) checkAliasDiscipline(fd *funcDecl, st *State) {
	for i, f := range aliasDiscipline(fd.decl, fd.pkg.TypesInfo) {
		fv.oblige(st, "safe:alias", fmt.Sprint(i), boolT(false), f.pos,
			fmt.Sprintf("aliasing discipline: the backing array of the re-slice of %s is written through more than one path (%s); the slice value model does not describe this function", f.origin, strings.Join(f.dests, ", ")))
	}
}
