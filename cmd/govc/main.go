package main

import (
	"encoding/json"
	"flag"
	"fmt"
	"go/types"
	"os"
	"os/exec"
	"path/filepath"
	"sort"
	"strconv"
	"strings"
	"time"
)

const verifRoot = "/verif"

type PropLoad struct {
	Dir      string   `json:"dir"`
	Patterns []string `json:"patterns"`
}

type PropFile struct {
	ID             string     `json:"id"`
	Loads          []PropLoad `json:"loads"`
	Functions      []string   `json:"functions"`
	Lemmas         []string   `json:"lemmas"`
	MinObligations int        `json:"min_obligations"`
	NotCovered     []string   `json:"not_covered"`
	Assumptions    []string   `json:"assumptions"`
	Lockset        []string   `json:"lockset"`
	QuickTimeoutS  int        `json:"quick_timeout_s"` // per-obligation budget of the quick tier when 10 s is too tight for a discharged obligation
	Crash          []string   `json:"crash"`
}

func main() {
	os.Setenv("PATH", "/opt/veriftools/go1.26.8/bin:"+os.Getenv("PATH"))
	if len(os.Args) < 2 {
		fmt.Fprintln(os.Stderr, "usage: govc check|func|selftest ...")
		os.Exit(2)
	}
	switch os.Args[1] {
	case "check":
		os.Exit(cmdCheck(os.Args[2:]))
	case "func":
		os.Exit(cmdFunc(os.Args[2:]))
	case "spec":
		// print the rewritten form of a specification expression
		out, err := rewriteSpec(strings.Join(os.Args[2:], " "))
		fmt.Println(out, err)
	default:
		fmt.Fprintln(os.Stderr, "unknown command", os.Args[1])
		os.Exit(2)
	}
}

func envInt(name string, def int) int {
	if v, err := strconv.Atoi(os.Getenv(name)); err == nil {
		return v
	}
	return def
}

// cmdFunc: developer entry point. govc func --dir cesium --pkg ./internal/domain [--key substr] [-v]
func cmdFunc(args []string) int {
	fs := flag.NewFlagSet("func", flag.ExitOnError)
	dir := fs.String("dir", "", "module directory under /repo")
	pkg := fs.String("pkg", "./...", "package patterns (comma separated)")
	key := fs.String("key", "", "only functions whose key contains this")
	verbose := fs.Bool("v", false, "print every obligation")
	timeout := fs.Int("t", 10, "solver timeout (s)")
	keep := fs.String("smt", filepath.Join(verifRoot, "smt", "dev"), "directory for SMT files")
	sweep := fs.Bool("sweep", false, "also verify every function without a contract against an empty contract (safety obligations only; a triage aid, not a check)")
	fs.Parse(args)
	t0 := time.Now()
	prog, err := loadProgram(filepath.Join(repoRoot, *dir), strings.Split(*pkg, ","))
	if err != nil {
		fmt.Println("ERROR:", err)
		return 2
	}
	fmt.Printf("loaded in %.1fs\n", time.Since(t0).Seconds())
	var specs []*FuncSpec
	for _, sp := range prog.specs {
		if sp.Kind != SKContract && sp.Kind != SKLemma && !(sp.Kind == SKPure && len(sp.Requires) > 0) {
			continue
		}
		if *key != "" && !strings.Contains(sp.Key, *key) {
			continue
		}
		specs = append(specs, sp)
	}
	if *sweep {
		for k, fd := range prog.decls {
			if prog.specs[k] != nil || fd.decl == nil || fd.decl.Body == nil || strings.Contains(k, ".__") || (*key != "" && !strings.Contains(k, *key)) {
				continue
			}
			if strings.HasSuffix(prog.fset.Position(fd.decl.Pos()).Filename, "_test.go") || !strings.HasPrefix(prog.fset.Position(fd.decl.Pos()).Filename, repoRoot) {
				continue
			}
			sig := fd.fn.Type().(*types.Signature)
			sp := &FuncSpec{Kind: SKContract, Key: k, PkgPath: fd.pkg.PkgPath, Name: fd.fn.Name(), NoOvf: true, Loops: map[int]*LoopSpec{}, Asserts: map[string][]*Clause{}, AtCalls: map[string][]*Clause{}, Pragmas: map[string]string{"opaque_func_values": "", "wraps": "sweep"}, ModAll: true}
			for i := 0; i < sig.Params().Len(); i++ {
				sp.Params = append(sp.Params, Param{sig.Params().At(i).Name(), ""})
			}
			for i := 0; i < sig.Results().Len(); i++ {
				sp.Results = append(sp.Results, Param{sig.Results().At(i).Name(), ""})
			}
			specs = append(specs, sp)
		}
	}
	sort.Slice(specs, func(i, j int) bool { return specs[i].Key < specs[j].Key })
	bad := 0
	for _, sp := range specs {
		t1 := time.Now()
		res := verifyFunc(prog, sp)
		if res.Missing {
			fmt.Printf("MISSING  %s\n", res.Name)
			bad++
			continue
		}
		if res.Rejected != "" {
			fmt.Printf("REJECTED %s: %s\n", res.Name, res.Rejected)
			bad++
			continue
		}
		gen := time.Since(t1).Seconds()
		solveAll(res.Obls, *keep, *timeout, envInt("VERIF_SEED", 0), false, 8)
		ok, fail := 0, 0
		for _, o := range res.Obls {
			good := o.Result == o.Expect || (o.Expect == "sat" && o.Result != "unsat")
			if good {
				ok++
			} else {
				fail++
			}
			if *verbose || !good {
				fmt.Printf("   %-8s %-7s %5.2fs %s  [%s] %s\n", map[bool]string{true: "ok", false: "FAILED"}[good], o.Result, o.TimeS, o.Name, o.Pos, o.Goal)
			}
		}
		fmt.Printf("%s %s: %d obligations, %d ok, %d failed (gen %.2fs, total %.1fs)\n", map[bool]string{true: "PASS", false: "FAIL"}[fail == 0], res.Name, len(res.Obls), ok, fail, gen, time.Since(t1).Seconds())
		if *verbose {
			for _, n := range res.Notes {
				fmt.Println("   note:", n)
			}
		}
		if fail > 0 {
			bad++
		}
	}
	if bad > 0 {
		return 1
	}
	return 0
}

// ---------------------------------------------------------------- check

type KnownFinding struct {
	Property   string `json:"property"`
	Obligation string `json:"obligation"` // exact obligation name, or prefix ending in *
	What       string `json:"what"`
	Status     string `json:"status"` // "open" or "fixed"
	Commit     string `json:"commit,omitempty"`
	// AlsoIn lists further properties whose checks include the same function: the obligation is
	// reported as this known finding there as well (it is the same obligation, not a second finding)
	AlsoIn []string `json:"also_in,omitempty"`
}

func loadKnown() []KnownFinding {
	var k struct {
		Findings []KnownFinding `json:"findings"`
	}
	data, err := os.ReadFile(filepath.Join(verifRoot, "known_findings.json"))
	if err != nil {
		return nil
	}
	json.Unmarshal(data, &k)
	return k.Findings
}

func matchKnown(k KnownFinding, prop, obl string) bool {
	if k.Status == "fixed" {
		return false
	}
	if k.Property != prop {
		also := false
		for _, p := range k.AlsoIn {
			if p == prop {
				also = true
			}
		}
		if !also {
			return false
		}
	}
	if strings.HasSuffix(k.Obligation, "*") {
		return strings.HasPrefix(obl, strings.TrimSuffix(k.Obligation, "*"))
	}
	return k.Obligation == obl
}

func cmdCheck(args []string) int {
	fs := flag.NewFlagSet("check", flag.ExitOnError)
	prop := fs.String("property", "", "property id")
	tier := fs.String("tier", "quick", "quick|thorough")
	replay := fs.String("replay", "", "replay file")
	fs.Parse(args)
	if *replay != "" {
		return cmdReplay(*replay)
	}
	if t := os.Getenv("VERIF_TIER"); t == "quick" || t == "thorough" {
		*tier = t
	}
	seed := envInt("VERIF_SEED", 0)
	t0 := time.Now()
	data, err := os.ReadFile(filepath.Join(verifRoot, "props", *prop+".json"))
	if err != nil {
		fmt.Println("ERROR:", err)
		return 2
	}
	var pf PropFile
	if err := json.Unmarshal(data, &pf); err != nil {
		fmt.Println("ERROR: props file:", err)
		return 2
	}
	timeout := 10
	if pf.QuickTimeoutS > 0 {
		timeout = pf.QuickTimeoutS
	}
	needTwo := false
	if *tier == "thorough" {
		timeout = 60
		needTwo = true
	}
	smtDir := filepath.Join(verifRoot, "smt", pf.ID)
	scratch := os.Getenv("GOVC_REPO") != ""
	if scratch {
		smtDir = filepath.Join(repoRoot, ".govc-smt", pf.ID)
	}
	os.RemoveAll(smtDir)
	run := &checkRun{pf: &pf, tier: *tier, seed: seed, scratch: scratch, timeout: timeout}
	if *tier == "thorough" && !scratch {
		run.mutation = runMutationCorpus(pf.ID, seed)
	}
	want := map[string]bool{}
	for _, f := range pf.Functions {
		want[f] = true
	}
	for _, l := range pf.Lemmas {
		want[l] = true
	}
	done := map[string]bool{}
	for _, ld := range pf.Loads {
		prog, err := loadProgram(filepath.Join(repoRoot, ld.Dir), ld.Patterns)
		if err != nil {
			if strings.HasPrefix(err.Error(), "type error (contract or code)") {
				// the code alone type-checks (first load) but the contracts no longer do against it:
				// the code under contract changed in a way its contract cannot follow (a local named
				// in an invariant is gone, a signature changed). A violation, not a tool error.
				dir := filepath.Join(verifRoot, "replays", pf.ID)
				if run.scratch {
					dir = filepath.Join(repoRoot, ".govc-smt", pf.ID, "replays")
				}
				os.MkdirAll(dir, 0o755)
				rp := filepath.Join(dir, "contract_typecheck.txt")
				os.WriteFile(rp, []byte("obligation: the contracts of this property type-check against the code they are written for\n\nThe code type-checks on its own; with the contract clauses added it does not:\n\n"+err.Error()+"\n"), 0o644)
				fmt.Printf("VIOLATION property=%s replay=%s obligation=%s#contract-typecheck result=contract-does-not-fit-code no-failing-input-found\n", pf.ID, rp, ld.Dir)
				run.writeEvidence(time.Since(t0).Seconds(), "contracts do not type-check against the code: "+err.Error())
				return 1
			}
			fmt.Println("ERROR: load:", err)
			run.writeEvidence(time.Since(t0).Seconds(), "load/contract error: "+err.Error())
			return 2
		}
		var specs []*FuncSpec
		for _, sp := range prog.specs {
			n := shortName(sp.Key)
			if want[n] && !done[n] {
				specs = append(specs, sp)
			}
		}
		sort.Slice(specs, func(i, j int) bool { return specs[i].Key < specs[j].Key })
		for _, sp := range specs {
			done[shortName(sp.Key)] = true
			res := verifyFunc(prog, sp)
			run.funcs = append(run.funcs, res)
		}
		if len(pf.Lockset) > 0 {
			run.lockset = append(run.lockset, runLockset(prog, &pf)...)
		}
	}
	for n := range want {
		if !done[n] {
			run.funcs = append(run.funcs, &FuncResult{Key: n, Name: n, Missing: true})
		}
	}
	sort.Slice(run.funcs, func(i, j int) bool { return run.funcs[i].Name < run.funcs[j].Name })
	var all []*Obligation
	for _, f := range run.funcs {
		all = append(all, f.Obls...)
	}
	if run.scratch && os.Getenv("GOVC_FAIL_FAST") == "1" {
		known := loadKnown()
		failFast = func(o *Obligation) bool {
			if o.Expect == "sat" {
				return o.Result == "unsat"
			}
			if o.Result == "unsat" || o.Result == "dead-path" {
				return false
			}
			for _, k := range known {
				if matchKnown(k, pf.ID, o.Name) {
					return false
				}
			}
			return true
		}
	}
	solveAll(all, smtDir, timeout, seed, needTwo, 8)
	return run.report(time.Since(t0).Seconds())
}

type checkRun struct {
	timeout  int
	scratch  bool            // running on a scratch copy (mutation corpus): no evidence, no replays
	mutation *mutationReport // thorough tier: result of the must-fail corpus
	pf       *PropFile
	tier     string
	seed     int
	funcs    []*FuncResult
	lockset  []*Obligation
}

func (r *checkRun) report(wall float64) int {
	known := loadKnown()
	pid := r.pf.ID
	var all []*Obligation
	for _, f := range r.funcs {
		all = append(all, f.Obls...)
	}
	all = append(all, r.lockset...)
	violations := 0
	discharged := 0
	proofObls := 0
	undecided := 0
	var lines []string
	replayDir := filepath.Join(verifRoot, "replays", pid)
	for _, f := range r.funcs {
		if f.Missing {
			undecided++
			lines = append(lines, fmt.Sprintf("UNDECIDED: property=%s contract target missing %s", pid, f.Name))
		} else if f.Rejected != "" {
			undecided++
			lines = append(lines, fmt.Sprintf("UNDECIDED: property=%s outside subset %s: %s", pid, f.Name, f.Rejected))
		}
	}
	knownPrinted := map[string]bool{}
	for _, o := range all {
		if o.Expect == "sat" {
			if o.Result == "unsat" {
				violations++
				path := writeReplayStub(replayDir, o, "vacuous: this cover must be satisfiable but is unsat")
				lines = append(lines, fmt.Sprintf("VIOLATION property=%s replay=%s obligation=%s vacuous-contract no-failing-input-found", pid, path, o.Name))
			}
			continue
		}
		proofObls++
		if o.Result == "unsat" {
			discharged++
			continue
		}
		if o.Result == "skipped" {
			continue // fail-fast run on a scratch copy: not attempted after the first violation
		}
		isKnown := false
		for _, k := range known {
			if matchKnown(k, pid, o.Name) {
				isKnown = true
				if !knownPrinted[k.Obligation] {
					knownPrinted[k.Obligation] = true
					lines = append(lines, fmt.Sprintf("KNOWN-FINDING: property=%s %s (obligation %s)", pid, k.What, o.Name))
				}
			}
		}
		if isKnown {
			continue
		}
		violations++
		var path string
		var reproduced bool
		if r.scratch {
			path, reproduced = "-", false
		} else {
			path, reproduced = tryReplay(replayDir, o, r)
		}
		suffix := ""
		if !reproduced {
			suffix = " no-failing-input-found"
		}
		lines = append(lines, fmt.Sprintf("VIOLATION property=%s replay=%s obligation=%s result=%s%s", pid, path, o.Name, o.Result, suffix))
	}
	for _, l := range lines {
		fmt.Println(l)
	}
	if r.pf.MinObligations > 0 && proofObls < r.pf.MinObligations && undecided == 0 {
		fmt.Printf("ERROR: vacuity guard: only %d obligations generated, expected at least %d\n", proofObls, r.pf.MinObligations)
		r.writeEvidenceFull(wall, all, proofObls, discharged, violations, undecided, known)
		return 2
	}
	r.writeEvidenceFull(wall, all, proofObls, discharged, violations, undecided, known)
	fmt.Printf("property=%s tier=%s functions=%d obligations=%d discharged=%d violations=%d undecided=%d wall=%.1fs\n", pid, r.tier, len(r.funcs), proofObls, discharged, violations, undecided, wall)
	if violations > 0 {
		return 1
	}
	return 0
}

func writeReplayStub(dir string, o *Obligation, why string) string {
	os.MkdirAll(dir, 0o755)
	path := filepath.Join(dir, sanitize(o.Name)+".txt")
	var sb strings.Builder
	fmt.Fprintf(&sb, "obligation: %s\nkind: %s\nfunction: %s\nposition: %s\ngoal: %s\nresult: %s (solver %s)\nreason: %s\nsmt: %s\n--- solver output ---\n%s\n", o.Name, o.Kind, o.Func, o.Pos, o.Goal, o.Result, o.Solver, why, o.File, o.Output)
	os.WriteFile(path, []byte(sb.String()), 0o644)
	return path
}

func (r *checkRun) writeEvidence(wall float64, explanation string) {
	if r.scratch {
		return
	}
	ev := map[string]any{
		"property_id": r.pf.ID, "tier": r.tier, "seed": r.seed, "level": "other",
		"coverage": map[string]any{"explanation": explanation}, "wall_s": wall, "violations": 0,
	}
	writeJSON(filepath.Join(verifRoot, "evidence", r.pf.ID+".json"), ev)
}

func writeJSON(path string, v any) {
	os.MkdirAll(filepath.Dir(path), 0o755)
	data, _ := json.MarshalIndent(v, "", " ")
	os.WriteFile(path, data, 0o644)
}

func (r *checkRun) writeEvidenceFull(wall float64, all []*Obligation, proofObls, discharged, violations, undecided int, known []KnownFinding) {
	byBackend := map[string]int{}
	solverTime := 0.0
	var samples []map[string]any
	var failed []map[string]any
	covers := map[string]int{}
	knownFailed := 0
	for _, o := range all {
		solverTime += o.TimeS
		if o.Expect == "sat" {
			covers[o.Result]++
			continue
		}
		if o.Result == "unsat" {
			byBackend[o.Solver]++
		} else {
			isKnown := false
			for _, k := range known {
				if matchKnown(k, r.pf.ID, o.Name) {
					isKnown = true
				}
			}
			if isKnown {
				knownFailed++
			}
			failed = append(failed, map[string]any{"name": o.Name, "result": o.Result, "goal": o.Goal, "pos": o.Pos, "known_finding": isKnown})
		}
		if len(samples) < 8 {
			samples = append(samples, map[string]any{"obligation": o.Name, "kind": o.Kind, "goal": o.Goal, "pos": o.Pos, "result": o.Result, "solver": o.Solver, "time_s": o.TimeS, "smt_file": o.File})
		}
	}
	var funcs []map[string]any
	assume := map[string]bool{}
	trusted := map[string]bool{}
	for _, a := range r.pf.Assumptions {
		assume[a] = true
	}
	for _, f := range r.funcs {
		status := "translated"
		if f.Missing {
			status = "missing"
		} else if f.Rejected != "" {
			status = "outside-subset: " + f.Rejected
		}
		funcs = append(funcs, map[string]any{"name": f.Name, "kind": f.Kind, "pos": f.Pos, "src_sha256_8": f.SrcHash, "obligations": len(f.Obls), "status": status,
			"arith": f.Arith, "callee_contracts_used": f.Contracts, "trusted_contracts_used": f.Trusted, "pure_functions_used": f.Pure, "inlined": f.Inlined})
		for _, n := range f.Notes {
			assume[n] = true
		}
		for _, t := range f.Trusted {
			trusted[t] = true
		}
		if f.NoOverflow {
			assume["machine arithmetic treated as mathematical (overflow obligations off) in "+f.Name] = true
		}
	}
	tb := []string{"z3 4.8.12, z3 5.1.0 (z3-new), cvc5 1.0 (first definitive answer wins; disagreement = undecided)",
		"go/types + go/packages (x/tools v0.50.0, go1.26.8) for parsing and typing /repo",
		"govc translation Go typed AST -> SMT-LIB (this repository, cmd/govc); abstractions listed under assumptions"}
	for t := range trusted {
		tb = append(tb, "trusted contract (assumed, body not verified): "+t)
	}
	sort.Strings(tb[3:])
	level := "proof"
	// obligations listed as open known findings are reported apart: they state what the property
	// requires, fail on this tree, and are not part of what is claimed proved
	claimedObls := proofObls - knownFailed
	cov := map[string]any{
		"obligations": claimedObls, "discharged": discharged, "known_finding_obligations": knownFailed,
		"checker_cmd":  fmt.Sprintf("./bin/govc check --property %s --tier %s", r.pf.ID, r.tier),
		"trusted_base": tb, "samples": samples, "functions_under_contract": funcs, "by_backend": byBackend,
		"solver_time_s": solverTime, "covers": covers, "not_covered_clauses": r.pf.NotCovered, "undecided_functions": undecided,
		"failed_obligations": failed,
	}
	// the five slowest proof obligations (solver seconds of the winning solver) and the budget:
	// an obligation close to the budget is the one that would turn into a false alarm under load
	var slow []*Obligation
	for _, o := range all {
		if o.Expect != "sat" && o.Result == "unsat" {
			slow = append(slow, o)
		}
	}
	sort.SliceStable(slow, func(i, j int) bool { return slow[i].TimeS > slow[j].TimeS })
	var slowest []map[string]any
	for i := 0; i < len(slow) && i < 5; i++ {
		slowest = append(slowest, map[string]any{"obligation": slow[i].Name, "time_s": slow[i].TimeS, "solver": slow[i].Solver})
	}
	cov["slowest_obligations"] = slowest
	cov["per_obligation_timeout_s"] = r.timeout
	if knownFailed > 0 {
		cov["explanation"] = fmt.Sprintf("%d obligations generated; %d of them fail and are listed as open known findings (reported as KNOWN-FINDING lines, see known_findings); the remaining %d are the proof-level claim and all of them are discharged", proofObls, knownFailed, claimedObls)
	}
	if undecided > 0 || claimedObls <= 0 || discharged != claimedObls {
		// a proof-level claim needs every obligation discharged
		level = "other"
		cov["explanation"] = fmt.Sprintf("%d of %d claimed obligations discharged, %d functions undecided (missing or outside the verifier's subset), %d failed obligations (%d of them known findings)", discharged, claimedObls, undecided, len(failed), knownFailed)
	}
	if r.scratch {
		return
	}
	if r.mutation != nil {
		cov["mutation_corpus"] = r.mutation
	}
	var kf []string
	for _, k := range known {
		inAlso := false
		for _, p := range k.AlsoIn {
			if p == r.pf.ID {
				inAlso = true
			}
		}
		if k.Property == r.pf.ID || inAlso {
			kf = append(kf, k.Status+": "+k.Obligation+" — "+k.What)
		}
	}
	cov["known_findings"] = kf
	ev := map[string]any{
		"property_id": r.pf.ID, "tier": r.tier, "seed": r.seed, "level": level, "coverage": cov,
		"assumptions": keys(assume), "wall_s": wall, "violations": violations,
	}
	writeJSON(filepath.Join(verifRoot, "evidence", r.pf.ID+".json"), ev)
}

// ---------------------------------------------------------------- thorough tier: must-fail corpus

type mutantResult struct {
	Patch   string `json:"patch"`
	Outcome string `json:"outcome"` // killed | survived | quiet (benign, as expected) | false-alarm | skipped
	Detail  string `json:"detail,omitempty"`
}

type mutationReport struct {
	Explanation string         `json:"explanation"`
	Total       int            `json:"total"`
	Killed      int            `json:"killed"`
	Survived    int            `json:"survived"`
	Results     []mutantResult `json:"results"`
}

// runMutationCorpus applies every committed change of /verif/mutants/<id> and /verif/seeded/<id>
// (each breaks the property while compiling and passing the repository's tests) to a scratch copy
// of /repo's working tree and runs this property's quick check on the copy in a sub-process: the
// check must report a violation (a change marked BENIGN must stay quiet). It measures whether the
// obligations still bite; a survivor is reported, it is not a violation of the property by /repo.
func runMutationCorpus(id string, seed int) *mutationReport {
	rep := &mutationReport{Explanation: "each listed change was applied to a scratch copy of /repo's working tree and this property's quick check was run on the copy; 'killed' = the check reported a violation"}
	var patches []string
	m1, _ := filepath.Glob(filepath.Join(verifRoot, "mutants", id, "*.patch"))
	m2, _ := filepath.Glob(filepath.Join(verifRoot, "seeded", id, "*", "patch.diff"))
	patches = append(append(patches, m1...), m2...)
	sort.Strings(patches)
	if len(patches) == 0 {
		return rep
	}
	base := "/dev/shm"
	if st, err := os.Stat(base); err != nil || !st.IsDir() {
		base = os.TempDir()
	}
	scratch, err := os.MkdirTemp(base, "govc-mut-"+id+"-")
	if err != nil {
		rep.Explanation += "; scratch directory unavailable: " + err.Error()
		return rep
	}
	defer os.RemoveAll(scratch)
	if out, err := exec.Command("rsync", "-a", "--exclude", ".git", "/repo/", scratch+"/").CombinedOutput(); err != nil {
		rep.Explanation += "; copy failed: " + err.Error() + " " + string(out)
		return rep
	}
	self, _ := os.Executable()
	for _, p := range patches {
		rel, _ := filepath.Rel(verifRoot, p)
		res := mutantResult{Patch: rel}
		benign := false
		if _, err := os.Stat(filepath.Join(filepath.Dir(p), "BENIGN")); err == nil {
			benign = true
		}
		if out, err := runIn(scratch, "git", "apply", "--unsafe-paths", "-p1", p); err != nil {
			res.Outcome, res.Detail = "skipped", "does not apply: "+firstLine(out)
			rep.Results = append(rep.Results, res)
			continue
		}
		cmd := exec.Command(self, "check", "--property", id, "--tier", "quick")
		cmd.Dir = verifRoot
		cmd.Env = append(os.Environ(), "GOVC_REPO="+scratch, "GOVC_FAIL_FAST=1", "VERIF_TIER=quick", fmt.Sprintf("VERIF_SEED=%d", seed))
		out, _ := cmd.CombinedOutput()
		code := cmd.ProcessState.ExitCode()
		first := ""
		for _, l := range strings.Split(string(out), "\n") {
			if strings.HasPrefix(l, "VIOLATION") {
				if i := strings.Index(l, "obligation="); i >= 0 {
					first = l[i+len("obligation="):]
				}
				break
			}
		}
		switch {
		case benign && code == 0:
			res.Outcome = "quiet"
		case benign:
			res.Outcome, res.Detail = "false-alarm", first
		case code == 1:
			res.Outcome, res.Detail = "killed", first
			rep.Killed++
		default:
			res.Outcome, res.Detail = "survived", fmt.Sprintf("exit %d: %s", code, lastLine(string(out)))
			rep.Survived++
		}
		if !benign {
			rep.Total++
		}
		rep.Results = append(rep.Results, res)
		if out, err := runIn(scratch, "git", "apply", "--unsafe-paths", "-R", "-p1", p); err != nil {
			// cannot restore: start from a fresh copy
			_ = out
			exec.Command("rsync", "-a", "--delete", "--exclude", ".git", "/repo/", scratch+"/").Run()
		}
		fmt.Printf("MUTANT %s %s %s\n", res.Outcome, rel, res.Detail)
	}
	return rep
}

func runIn(dir, name string, args ...string) (string, error) {
	c := exec.Command(name, args...)
	c.Dir = dir
	out, err := c.CombinedOutput()
	return string(out), err
}

func firstLine(s string) string {
	s = strings.TrimSpace(s)
	if i := strings.Index(s, "\n"); i >= 0 {
		return s[:i]
	}
	return s
}

func lastLine(s string) string {
	s = strings.TrimSpace(s)
	if i := strings.LastIndex(s, "\n"); i >= 0 {
		return s[i+1:]
	}
	return s
}
