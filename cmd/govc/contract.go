package main

import (
	"bytes"
	"fmt"
	"go/ast"
	"go/parser"
	"go/printer"
	"go/token"
	"os"
	"path/filepath"
	"regexp"
	"sort"
	"strconv"
	"strings"
)

const contractFileName = "zz_verif_contracts.go"

type SpecKind int

const (
	SKContract SpecKind = iota // requires/ensures, body verified
	SKTrusted                  // contract assumed, body not verified
	SKPure                     // body turned into an SMT function
	SKInline                   // body executed at call sites
	SKIgnore                   // call has no effect on modelled state, results arbitrary
	SKSpecFunc                 // specification-only pure function
	SKLemma
)

type Clause struct {
	Invariant bool   // requires_inv
	Trusted   bool   // assumed for callers, not proved from the body (listed as an assumption)
	Text      string // specification source
	Wrapper   string // name of the generated Go function holding the expression
	Line      int
}

type AssertBefore struct {
	ClosureReq bool // closure_requires: assumed when the returned closure is executed (pragma returned_closure)
	After      bool // checked after the anchor statement instead of before it
	Hint       bool // hint_after: checked, then assumed on the rest of the path (a proof step; never a known finding)
	Assume     bool // assume_after: a trusted contract for an opaque call in the anchor statement (function value, I/O): assumed, never proved, listed as an assumption
	Anchor     string
	Clause     *Clause
	Havoc      bool   // havoc_after: the clause is a modifies-style target; the location becomes arbitrary after the anchor (interference by other goroutines at a lock acquisition; constrained by following assume_after clauses)
	Apply      string    // apply_after: name of a lemma of this package applied to the argument expressions ApplyArgs
	ApplyArgs  []*Clause // (its requires are proved here, its ensures assumed on the rest of the path)
	LetName    string // let_after: binds a specification-only local (name, type) to the clause's value after the anchor
	LetType    string
	FromReq    bool // from_requires: precondition of the suffix verified under `pragma from`, over the locals in scope there
}

type LoopSpec struct {
	Invariants []*Clause
	Decreases  *Clause
	Modifies   []*Clause // objects (pointers/maps) the loop may write; others are framed
	HasMod     bool
}

type Param struct{ Name, Type string }

type FuncSpec struct {
	Kind          SpecKind
	Key           string // pkgpath.[Recv.]Name
	PkgPath       string
	Name          string
	RecvName      string // receiver type name, "" for functions
	Header        string
	Recv          *Param
	TParams       string // textual type parameter list for generated wrappers, "" if none
	Params        []Param
	Results       []Param
	Requires      []*Clause
	Ensures       []*Clause
	Modifies      []*Clause
	ModAll        bool // "modifies *": anything reachable may change
	Loops         map[int]*LoopSpec
	Asserts       map[string][]*Clause // label -> assertions
	AtCalls       map[string][]*Clause // callee name -> assertions on the arguments at each call
	AssertsBefore []*AssertBefore      // assertions anchored at the first statement whose source contains Anchor
	Body          string               // spec func body (expression)
	Arith         string               // "int" (default) or "bv"
	NoOvf         bool                 // overflow obligations off (assumption recorded)
	AllowPanic    bool
	Strings       bool // theory strings
	Untrusted     bool
	Pragmas       map[string]string
	UseLemmas     []string // use_lemma <name>: the (separately proved) lemma of this package is assumed, universally quantified, at entry
	Line          int
	File          string
}

func (fs *FuncSpec) allParams() []Param {
	var ps []Param
	if fs.Recv != nil {
		ps = append(ps, *fs.Recv)
	}
	return append(ps, fs.Params...)
}

// PkgContracts is the parsed contract file of one package.
type PkgContracts struct {
	PkgPath    string
	Dir        string
	PkgName    string
	Funcs      []*FuncSpec
	ByKey      map[string]*FuncSpec
	Imports    []string                                     // extra import lines
	Ghosts     []string                                     // ghost package-level variables: "name type"
	Decls      []string                                     // raw specification-only Go declarations (types)
	Locks      *LockSpec                                    // lockset discipline declarations (C09)
	IgnorePkgs []string                                     // calls from this package into these packages are ignored
	atcallVars func(fs *FuncSpec, callee string) []localVar // locals + callee parameters visible to an atcall clause
	assertVars func(fs *FuncSpec, ab *AssertBefore) []localVar
	Raw        string
}

var clauseKeywords = map[string]bool{
	"func": true, "trusted": true, "pure": true, "inline": true, "ignore": true, "spec": true, "lemma": true, "import": true,
	"requires": true, "requires_inv": true, "ensures": true, "modifies": true, "loop": true, "arith": true, "overflow": true, "allow_panic": true,
	"theory": true, "untrusted_input": true, "pragma": true, "assert": true, "note": true, "tparams": true, "ghost": true, "decl": true, "atcall": true, "ignorepkg": true, "trusted_ensures": true,
	"guarded_by": true, "requires_held": true, "holds_during": true, "returns_held": true, "lock_order": true, "unshared": true, "lock_alias": true, "assert_before": true, "assert_after": true, "hint_after": true, "hint_before": true, "assume_after": true, "closure_requires": true, "let_after": true, "use_lemma": true, "havoc_after": true, "apply_after": true, "from_requires": true,
}

type rawClause struct {
	kw   string
	text string
	line int
}

func readContractLines(path string) ([]rawClause, string, error) {
	data, err := os.ReadFile(path)
	if err != nil {
		return nil, "", err
	}
	var out []rawClause
	pkgName := ""
	for i, line := range strings.Split(string(data), "\n") {
		t := strings.TrimSpace(line)
		if strings.HasPrefix(t, "package ") {
			pkgName = strings.TrimSpace(strings.TrimPrefix(t, "package "))
			continue
		}
		if !strings.HasPrefix(t, "//@") {
			continue
		}
		t = strings.TrimSpace(strings.TrimPrefix(t, "//@"))
		if t == "" || strings.HasPrefix(t, "#") {
			continue
		}
		// strip trailing comment "  -- ..."
		if k := strings.Index(t, " -- "); k >= 0 {
			t = strings.TrimSpace(t[:k])
		}
		first := t
		if k := strings.IndexAny(t, " \t("); k >= 0 {
			first = t[:k]
		}
		if clauseKeywords[first] {
			out = append(out, rawClause{kw: first, text: strings.TrimSpace(t[len(first):]), line: i + 1})
		} else if len(out) > 0 {
			out[len(out)-1].text += " " + t
		} else {
			return nil, "", fmt.Errorf("%s:%d: text before any clause keyword", path, i+1)
		}
	}
	return out, pkgName, nil
}

var headerRe = regexp.MustCompile(`^func\s`)

// parseHeader parses "func (r T) Name(params) (results)".
func parseHeader(h string) (name string, recv *Param, recvType string, tparams string, params, results []Param, err error) {
	src := "package p\n" + h + " {}"
	fset := token.NewFileSet()
	f, perr := parser.ParseFile(fset, "h.go", src, 0)
	if perr != nil {
		err = fmt.Errorf("bad function header %q: %v", h, perr)
		return
	}
	fd, ok := f.Decls[0].(*ast.FuncDecl)
	if !ok {
		err = fmt.Errorf("bad function header %q", h)
		return
	}
	txt := func(n ast.Node) string {
		var b bytes.Buffer
		printer.Fprint(&b, fset, n)
		return b.String()
	}
	name = fd.Name.Name
	flat := func(fl *ast.FieldList, prefix string) []Param {
		var ps []Param
		if fl == nil {
			return nil
		}
		k := 0
		for _, f := range fl.List {
			ty := txt(f.Type)
			if el, ok := f.Type.(*ast.Ellipsis); ok {
				ty = "[]" + txt(el.Elt) // wrappers take the packed variadic slice
			}
			if len(f.Names) == 0 {
				ps = append(ps, Param{fmt.Sprintf("%s%d", prefix, k), ty})
				k++
			}
			for _, n := range f.Names {
				nm := n.Name
				if nm == "_" {
					nm = fmt.Sprintf("%s%d", prefix, k)
				}
				ps = append(ps, Param{nm, ty})
				k++
			}
		}
		return ps
	}
	if fd.Recv != nil && len(fd.Recv.List) == 1 {
		r := flat(fd.Recv, "recv")
		recv = &r[0]
		t := fd.Recv.List[0].Type
		if s, ok := t.(*ast.StarExpr); ok {
			t = s.X
		}
		switch x := t.(type) {
		case *ast.IndexExpr:
			recvType = txt(x.X)
			tparams = txt(x.Index) + " any"
		case *ast.IndexListExpr:
			recvType = txt(x.X)
			var tp []string
			for _, ix := range x.Indices {
				tp = append(tp, txt(ix)+" any")
			}
			tparams = strings.Join(tp, ", ")
		default:
			recvType = txt(t)
		}
	}
	if fd.Type.TypeParams != nil {
		var tp []string
		for _, f := range fd.Type.TypeParams.List {
			for _, n := range f.Names {
				tp = append(tp, n.Name+" "+txt(f.Type))
			}
		}
		if tparams != "" {
			tparams += ", "
		}
		tparams += strings.Join(tp, ", ")
	}
	params = flat(fd.Type.Params, "arg")
	results = flat(fd.Type.Results, "ret")
	return
}

func loadContracts(dir, pkgPath string) (*PkgContracts, error) {
	path := filepath.Join(dir, contractFileName)
	if _, err := os.Stat(path); err != nil {
		return nil, nil
	}
	clauses, pkgName, err := readContractLines(path)
	if err != nil {
		return nil, err
	}
	pc := &PkgContracts{PkgPath: pkgPath, Dir: dir, PkgName: pkgName, ByKey: map[string]*FuncSpec{}}
	var cur *FuncSpec
	add := func(fs *FuncSpec) error {
		if _, dup := pc.ByKey[fs.Key]; dup {
			return fmt.Errorf("%s:%d: duplicate contract for %s", path, fs.Line, fs.Key)
		}
		pc.Funcs = append(pc.Funcs, fs)
		pc.ByKey[fs.Key] = fs
		return nil
	}
	newFunc := func(kind SpecKind, header string, line int) (*FuncSpec, error) {
		body := ""
		if kind == SKSpecFunc {
			k := strings.Index(header, "=")
			// find " = " at top level: spec func F(a T) R = expr
			depth := 0
			k = -1
			for i, c := range header {
				if c == '(' || c == '[' {
					depth++
				} else if c == ')' || c == ']' {
					depth--
				} else if c == '=' && depth == 0 {
					k = i
					break
				}
			}
			if k >= 0 {
				body = strings.TrimSpace(header[k+1:])
				header = strings.TrimSpace(header[:k])
			}
		}
		if !headerRe.MatchString(header) {
			header = "func " + header
		}
		name, recv, recvType, tparams, params, results, err := parseHeader(header)
		if err != nil {
			return nil, fmt.Errorf("%s:%d: %v", path, line, err)
		}
		fs := &FuncSpec{Kind: kind, PkgPath: pkgPath, Name: name, RecvName: recvType, Header: header, Recv: recv, TParams: tparams,
			Params: params, Results: results, Loops: map[int]*LoopSpec{}, Asserts: map[string][]*Clause{}, AtCalls: map[string][]*Clause{}, Body: body, Arith: "int",
			Pragmas: map[string]string{}, Line: line, File: path}
		fs.Key = pkgPath + "."
		if recvType != "" {
			fs.Key += recvType + "."
		}
		fs.Key += name
		return fs, add(fs)
	}
	var lockClauses []rawClause
	for _, c := range clauses {
		switch c.kw {
		case "guarded_by", "requires_held", "holds_during", "returns_held", "lock_order", "unshared", "lock_alias":
			lockClauses = append(lockClauses, c)
			cur = nil
			continue
		case "import":
			pc.Imports = append(pc.Imports, c.text)
			continue
		case "ignorepkg":
			pc.IgnorePkgs = append(pc.IgnorePkgs, strings.Trim(strings.TrimSpace(c.text), `"`))
			cur = nil
			continue
		case "decl":
			pc.Decls = append(pc.Decls, strings.TrimSpace(c.text))
			cur = nil
			continue
		case "ghost":
			pc.Ghosts = append(pc.Ghosts, strings.TrimSpace(strings.TrimPrefix(strings.TrimSpace(c.text), "var ")))
			cur = nil
			continue
		case "func":
			cur, err = newFunc(SKContract, "func "+c.text, c.line)
		case "trusted":
			cur, err = newFunc(SKTrusted, c.text, c.line)
		case "pure":
			cur, err = newFunc(SKPure, c.text, c.line)
		case "inline":
			cur, err = newFunc(SKInline, c.text, c.line)
		case "ignore":
			cur, err = newFunc(SKIgnore, c.text, c.line)
		case "spec":
			cur, err = newFunc(SKSpecFunc, c.text, c.line)
		case "lemma":
			cur, err = newFunc(SKLemma, c.text, c.line)
			if cur != nil {
				cur.Key = pkgPath + ".lemma." + cur.Name
				delete(pc.ByKey, pkgPath+"."+cur.Name)
				pc.ByKey[cur.Key] = cur
			}
		default:
			if cur == nil {
				return nil, fmt.Errorf("%s:%d: clause %q outside a function block", path, c.line, c.kw)
			}
			switch c.kw {
			case "requires":
				cur.Requires = append(cur.Requires, &Clause{Text: c.text, Line: c.line})
			case "requires_inv":
				// a representation invariant of the callee's package: proved at call sites inside
				// that package, assumed (and reported) at call sites in other packages
				cur.Requires = append(cur.Requires, &Clause{Text: c.text, Line: c.line, Invariant: true})
			case "ensures":
				cur.Ensures = append(cur.Ensures, &Clause{Text: c.text, Line: c.line})
			case "trusted_ensures":
				cur.Ensures = append(cur.Ensures, &Clause{Text: c.text, Line: c.line, Trusted: true})
			case "modifies":
				for _, m := range splitTop(c.text) {
					m = strings.TrimSpace(m)
					switch m {
					case "nothing", "":
					case "*":
						cur.ModAll = true
					default:
						cur.Modifies = append(cur.Modifies, &Clause{Text: m, Line: c.line})
					}
				}
			case "loop":
				f := strings.Fields(c.text)
				if len(f) < 3 {
					return nil, fmt.Errorf("%s:%d: loop <n> invariant|decreases <expr>", path, c.line)
				}
				n, e := strconv.Atoi(f[0])
				if e != nil {
					return nil, fmt.Errorf("%s:%d: bad loop ordinal", path, c.line)
				}
				ls := cur.Loops[n]
				if ls == nil {
					ls = &LoopSpec{}
					cur.Loops[n] = ls
				}
				rest := strings.TrimSpace(strings.TrimPrefix(strings.TrimSpace(strings.TrimPrefix(c.text, f[0])), f[1]))
				switch f[1] {
				case "invariant":
					ls.Invariants = append(ls.Invariants, &Clause{Text: rest, Line: c.line})
				case "decreases":
					ls.Decreases = &Clause{Text: rest, Line: c.line}
				case "modifies":
					ls.HasMod = true
					for _, m := range splitTop(rest) {
						m = strings.TrimSpace(m)
						if m != "" && m != "nothing" {
							ls.Modifies = append(ls.Modifies, &Clause{Text: m, Line: c.line})
						}
					}
				default:
					return nil, fmt.Errorf("%s:%d: loop clause %q", path, c.line, f[1])
				}
			case "tparams":
				cur.TParams = strings.TrimSpace(c.text)
			case "closure_requires":
				cur.AssertsBefore = append(cur.AssertsBefore, &AssertBefore{ClosureReq: true, Anchor: "return func(", Clause: &Clause{Text: strings.TrimSpace(c.text), Line: c.line}})
			case "assert_before", "assert_after", "hint_after", "hint_before", "assume_after", "havoc_after":
				// assert_before "<substring of the statement's source>" <expr>
				t := strings.TrimSpace(c.text)
				if !strings.HasPrefix(t, "\"") {
					return nil, fmt.Errorf("%s:%d: assert_before \"anchor\" <expr>", path, c.line)
				}
				k := strings.Index(t[1:], "\"")
				if k < 0 {
					return nil, fmt.Errorf("%s:%d: assert_before: unterminated anchor", path, c.line)
				}
				cur.AssertsBefore = append(cur.AssertsBefore, &AssertBefore{After: c.kw != "assert_before" && c.kw != "hint_before", Hint: c.kw == "hint_after" || c.kw == "hint_before", Assume: c.kw == "assume_after", Havoc: c.kw == "havoc_after", Anchor: t[1 : 1+k], Clause: &Clause{Text: strings.TrimSpace(t[2+k:]), Line: c.line}})
			case "from_requires":
				// from_requires <expr>: with `pragma from <anchor>`, what the skipped prefix is relied on to
				// have established about the locals in scope at the anchor (assumed there, listed)
				from := strings.TrimSpace(cur.Pragmas["from"])
				if from == "" {
					return nil, fmt.Errorf("%s:%d: from_requires needs a preceding `pragma from <anchor>`", path, c.line)
				}
				cur.AssertsBefore = append(cur.AssertsBefore, &AssertBefore{FromReq: true, Anchor: from, Clause: &Clause{Text: strings.TrimSpace(c.text), Line: c.line}})
			case "use_lemma":
				cur.UseLemmas = append(cur.UseLemmas, strings.Fields(c.text)...)
			case "apply_after":
				// apply_after "<anchor>" lemma(arg, ...): lemma application at a program point
				t := strings.TrimSpace(c.text)
				k := -1
				if strings.HasPrefix(t, "\"") {
					k = strings.Index(t[1:], "\"")
				}
				rest := ""
				if k >= 0 {
					rest = strings.TrimSpace(t[2+k:])
				}
				op := strings.Index(rest, "(")
				if k < 0 || op <= 0 || !strings.HasSuffix(rest, ")") {
					return nil, fmt.Errorf("%s:%d: apply_after \"anchor\" lemma(args)", path, c.line)
				}
				ab := &AssertBefore{After: true, Anchor: t[1 : 1+k], Apply: strings.TrimSpace(rest[:op]), Clause: &Clause{Text: rest, Line: c.line}}
				for _, a := range splitTop(rest[op+1 : len(rest)-1]) {
					ab.ApplyArgs = append(ab.ApplyArgs, &Clause{Text: strings.TrimSpace(a), Line: c.line})
				}
				cur.AssertsBefore = append(cur.AssertsBefore, ab)
			case "let_after":
				// let_after "<anchor>" name type = <expr>: a specification-only local, bound once after the
				// anchor statement and visible to later loop invariants and anchored assertions
				t := strings.TrimSpace(c.text)
				k := -1
				if strings.HasPrefix(t, "\"") {
					k = strings.Index(t[1:], "\"")
				}
				if k < 0 {
					return nil, fmt.Errorf("%s:%d: let_after \"anchor\" name type = <expr>", path, c.line)
				}
				rest := strings.TrimSpace(t[2+k:])
				eq := strings.Index(rest, "=")
				hd := strings.Fields(rest[:max(eq, 0)])
				if eq < 0 || len(hd) != 2 {
					return nil, fmt.Errorf("%s:%d: let_after \"anchor\" name type = <expr>", path, c.line)
				}
				cur.AssertsBefore = append(cur.AssertsBefore, &AssertBefore{After: true, Anchor: t[1 : 1+k], LetName: hd[0], LetType: hd[1], Clause: &Clause{Text: strings.TrimSpace(rest[eq+1:]), Line: c.line}})
			case "atcall":
				// atcall <CalleeName> <expr over caller variables and the callee's parameter names>
				f := strings.SplitN(strings.TrimSpace(c.text), " ", 2)
				if len(f) != 2 {
					return nil, fmt.Errorf("%s:%d: atcall <callee> <expr>", path, c.line)
				}
				name := strings.TrimSuffix(f[0], ":")
				cur.AtCalls[name] = append(cur.AtCalls[name], &Clause{Text: strings.TrimSpace(f[1]), Line: c.line})
			case "arith":
				cur.Arith = strings.TrimSpace(c.text)
			case "overflow":
				cur.NoOvf = strings.TrimSpace(c.text) == "off"
			case "allow_panic":
				cur.AllowPanic = true
			case "theory":
				cur.Strings = strings.Contains(c.text, "strings")
			case "untrusted_input":
				cur.Untrusted = true
			case "pragma":
				f := strings.SplitN(c.text, " ", 2)
				v := ""
				if len(f) > 1 {
					v = f[1]
				}
				cur.Pragmas[f[0]] = v
			case "note":
			}
		}
		if err != nil {
			return nil, err
		}
	}
	if len(lockClauses) > 0 {
		if err := parseLockClauses(pc, lockClauses); err != nil {
			return nil, err
		}
	}
	return pc, nil
}

func splitTop(s string) []string {
	var out []string
	d, last := 0, 0
	for i, c := range s {
		switch c {
		case '(', '[', '{':
			d++
		case ')', ']', '}':
			d--
		case ',':
			if d == 0 {
				out = append(out, s[last:i])
				last = i + 1
			}
		}
	}
	return append(out, s[last:])
}

func wrapperIdent(s string) string { return sanitize(s) }

// localVar describes a local variable visible at a loop (name and type text).
type localVar struct{ Name, Type string }

// genSpecFile generates the Go source with all specification expressions of a
// package as ordinary functions so that go/types checks them with the code.
// locals(fs, loopOrdinal) gives the locals in scope at that loop.
func (pc *PkgContracts) genSpecFile(imports []string, locals func(fs *FuncSpec, loop int) []localVar) (string, error) {
	return pc.genSpecFileX(imports, locals, false)
}

const stubHelpers = `func __implies(a, b bool) bool { return !a || b }
func __forall(f any) bool           { return true }
func __exists(f any) bool           { return true }
func __old[T any](x T) T            { return x }
func __in[K comparable, V any](m map[K]V, k K) bool { _, ok := m[k]; return ok }
func __fresh[T any](x T) bool       { return true }
func __is(err error, target error) bool { return true }
func __ri(n int) int                    { return 0 }
func __rc(n int) int                    { return 0 }
func __rm[T any](n int) T { var z T; return z }
func __recvs() int { return 0 }
func __wgerr() error { return nil }
func __recvval[T any](i int) T { var z T; return z }
func __eq[T any](a, b T) bool           { return true }
func __alloc[T any](x T) bool           { return true }
func __ite[T any](c bool, a, b T) T     { return a }
func __seen[K comparable](k K) bool     { return true }

`

const executableHelpers = `var __replayBound = 4

func __implies(a, b bool) bool { return !a || b }

// quantifiers over integers are evaluated over [-2, __replayBound]; other domains are skipped
func __quant(f any, forall bool) bool {
	v := __reflect.ValueOf(f)
	t := v.Type()
	n := t.NumIn()
	for i := 0; i < n; i++ {
		k := t.In(i).Kind()
		if k < __reflect.Int || k > __reflect.Uint64 {
			return forall
		}
	}
	args := make([]__reflect.Value, n)
	var rec func(i int) bool
	rec = func(i int) bool {
		if i == n {
			return __callQuant(v, args, forall)
		}
		for x := -2; x <= __replayBound; x++ {
			a := __reflect.New(t.In(i)).Elem()
			if a.CanInt() {
				a.SetInt(int64(x))
			} else {
				if x < 0 {
					continue
				}
				a.SetUint(uint64(x))
			}
			args[i] = a
			r := rec(i + 1)
			if forall && !r {
				return false
			}
			if !forall && r {
				return true
			}
		}
		return forall
	}
	return rec(0)
}
// one instantiation; a panic (e.g. an index outside the guard) makes it neutral
func __callQuant(v __reflect.Value, args []__reflect.Value, neutral bool) (r bool) {
	defer func() {
		if recover() != nil {
			r = neutral
		}
	}()
	return v.Call(args)[0].Bool()
}
func __forall(f any) bool { return __safeQuant(f, true) }
func __exists(f any) bool { return __safeQuant(f, false) }
func __safeQuant(f any, forall bool) (r bool) {
	defer func() {
		if recover() != nil {
			r = forall
		}
	}()
	return __quant(f, forall)
}
func __old[T any](x T) T            { return x }
func __in[K comparable, V any](m map[K]V, k K) bool { _, ok := m[k]; return ok }
func __fresh[T any](x T) bool       { return true }
func __is(err error, target error) bool { return __errors.Is(err, target) }
func __ri(n int) int                    { return 0 }
func __rc(n int) int                    { return 0 }
func __rm[T any](n int) T { var z T; return z }
func __recvs() int { return 0 }
func __wgerr() error { return nil }
func __recvval[T any](i int) T { var z T; return z }
func __seen[K comparable](k K) bool     { return true }
func __eq[T any](a, b T) bool           { return __reflect.DeepEqual(a, b) }
func __alloc[T any](x T) bool           { return true }
func __ite[T any](c bool, a, b T) T     { if c { return a }; return b }

`

// genSpecFileX: executable=true emits helper bodies that can run (replay tests) and
// drops unused imports so that the file compiles.
func (pc *PkgContracts) genSpecFileX(imports []string, locals func(fs *FuncSpec, loop int) []localVar, executable bool) (string, error) {
	atcallVars := pc.atcallVars
	var b strings.Builder
	fmt.Fprintf(&b, "//go:build verif\n\npackage %s\n\n", pc.PkgName)
	b.WriteString("/*IMPORTS*/\n")
	allImports := append(append([]string{}, imports...), pc.Imports...)
	if executable {
		allImports = append(allImports, `__reflect "reflect"`, `__errors "errors"`)
		b.WriteString(executableHelpers)
	} else {
		b.WriteString(stubHelpers)
	}
	for _, g := range pc.Ghosts {
		fmt.Fprintf(&b, "var %s\n", g)
	}
	for _, d := range pc.Decls {
		fmt.Fprintf(&b, "%s\n", d)
	}
	emit := func(name, tparams string, params []Param, ret string, c *Clause) error {
		expr, err := rewriteSpec(c.Text)
		if executable {
			expr, err = rewriteSpecExec(c.Text)
		}
		if err != nil {
			return fmt.Errorf("%s:%d: %v", pc.Dir, c.Line, err)
		}
		c.Wrapper = name
		var ps []string
		seen := map[string]bool{}
		for _, p := range params {
			if seen[p.Name] {
				continue
			}
			seen[p.Name] = true
			ps = append(ps, p.Name+" "+p.Type)
		}
		tp := ""
		if tparams != "" {
			tp = "[" + tparams + "]"
		}
		fmt.Fprintf(&b, "//line %s:%d\nfunc %s%s(%s) %s { return %s }\n", contractFileName, c.Line, name, tp, strings.Join(ps, ", "), ret, expr)
		return nil
	}
	for _, fs := range pc.Funcs {
		base := wrapperIdent(fs.RecvName + "_" + fs.Name)
		switch fs.Kind {
		case SKSpecFunc:
			ret := "bool"
			if len(fs.Results) == 1 {
				ret = fs.Results[0].Type
			}
			if fs.Body == "" {
				// uninterpreted specification function
				var ps []string
				for _, p := range fs.Params {
					ps = append(ps, p.Name+" "+p.Type)
				}
				tp := ""
				if fs.TParams != "" {
					tp = "[" + fs.TParams + "]"
				}
				fmt.Fprintf(&b, "func %s%s(%s) %s { panic(\"uninterpreted\") }\n", fs.Name, tp, strings.Join(ps, ", "), ret)
				continue
			}
			c := &Clause{Text: fs.Body, Line: fs.Line}
			if err := emit(fs.Name, fs.TParams, fs.Params, ret, c); err != nil {
				return "", err
			}
			continue
		case SKIgnore:
			continue
		}
		pre := fs.allParams()
		post := append(append([]Param{}, pre...), fs.Results...)
		for i, c := range fs.Requires {
			if err := emit(fmt.Sprintf("__req_%s_%d", base, i), fs.TParams, pre, "bool", c); err != nil {
				return "", err
			}
		}
		for i, c := range fs.Ensures {
			if err := emit(fmt.Sprintf("__ens_%s_%d", base, i), fs.TParams, post, "bool", c); err != nil {
				return "", err
			}
		}
		for i, c := range fs.Modifies {
			if err := emit(fmt.Sprintf("__mod_%s_%d", base, i), fs.TParams, pre, "any", c); err != nil {
				return "", err
			}
		}
		var acNames []string
		for n := range fs.AtCalls {
			acNames = append(acNames, n)
		}
		sort.Strings(acNames)
		for _, n := range acNames {
			var lv []Param
			lv = append(lv, pre...)
			if atcallVars != nil {
				for _, l := range atcallVars(fs, n) {
					lv = append(lv, Param{l.Name, l.Type})
				}
			}
			for i, c := range fs.AtCalls[n] {
				if err := emit(fmt.Sprintf("__atcall_%s_%s_%d", base, n, i), fs.TParams, lv, "bool", c); err != nil {
					return "", err
				}
			}
		}
		for i, ab := range fs.AssertsBefore {
			var lv []Param
			lv = append(lv, pre...)
			if pc.assertVars != nil {
				for _, l := range pc.assertVars(fs, ab) {
					lv = append(lv, Param{l.Name, l.Type})
				}
			}
			ret := "bool"
			if ab.LetName != "" {
				ret = ab.LetType
			}
			if ab.Havoc {
				ret = "any"
			}
			for _, prev := range fs.AssertsBefore[:i] {
				if prev.LetName != "" {
					lv = append(lv, Param{prev.LetName, prev.LetType})
				}
			}
			if ab.LetName == "" {
				for _, next := range fs.AssertsBefore[i:] {
					if next.LetName != "" {
						lv = append(lv, Param{next.LetName, next.LetType})
					}
				}
			}
			if ab.Apply != "" {
				lsp := pc.ByKey[pc.PkgPath+".lemma."+ab.Apply]
				if lsp == nil || len(lsp.Params) != len(ab.ApplyArgs) {
					return "", fmt.Errorf("%s:%d: apply_after: no lemma %s with %d parameters in this package", pc.Dir, ab.Clause.Line, ab.Apply, len(ab.ApplyArgs))
				}
				for k, ac := range ab.ApplyArgs {
					if err := emit(fmt.Sprintf("__apply_%s_%d_%d", base, i, k), fs.TParams, lv, lsp.Params[k].Type, ac); err != nil {
						return "", err
					}
				}
				continue
			}
			if err := emit(fmt.Sprintf("__assert_%s_%d", base, i), fs.TParams, lv, ret, ab.Clause); err != nil {
				return "", err
			}
		}
		var loops []int
		for n := range fs.Loops {
			loops = append(loops, n)
		}
		sort.Ints(loops)
		for _, n := range loops {
			ls := fs.Loops[n]
			var lv []Param
			lv = append(lv, pre...)
			if locals != nil {
				for _, l := range locals(fs, n) {
					lv = append(lv, Param{l.Name, l.Type})
				}
			}
			for _, ab := range fs.AssertsBefore {
				if ab.LetName != "" {
					lv = append(lv, Param{ab.LetName, ab.LetType})
				}
			}
			for i, c := range ls.Invariants {
				if err := emit(fmt.Sprintf("__inv_%s_L%d_%d", base, n, i), fs.TParams, lv, "bool", c); err != nil {
					return "", err
				}
			}
			if ls.Decreases != nil {
				if err := emit(fmt.Sprintf("__dec_%s_L%d", base, n), fs.TParams, lv, "any", ls.Decreases); err != nil {
					return "", err
				}
			}
			for i, c := range ls.Modifies {
				if err := emit(fmt.Sprintf("__lmod_%s_L%d_%d", base, n, i), fs.TParams, lv, "any", c); err != nil {
					return "", err
				}
			}
		}
	}
	body := b.String()
	var ib strings.Builder
	seenImp := map[string]bool{}
	var lines []string
	for _, im := range allImports {
		if seenImp[im] {
			continue
		}
		seenImp[im] = true
		name := strings.Fields(im)[0]
		if executable && !regexp.MustCompile(`(^|[^A-Za-z0-9_])`+regexp.QuoteMeta(name)+`\.`).MatchString(body) {
			continue
		}
		lines = append(lines, im)
	}
	if len(lines) > 0 {
		ib.WriteString("import (\n")
		for _, l := range lines {
			fmt.Fprintf(&ib, "\t%s\n", l)
		}
		ib.WriteString(")\n")
	}
	return strings.Replace(body, "/*IMPORTS*/\n", ib.String(), 1), nil
}
