package main

import (
	"fmt"
	"go/types"
	"math/big"
	"strings"
)

// Universe owns the SMT declarations of one function verification.
type Universe struct {
	decls     []string
	declared  map[string]bool
	sortCache map[string]*Sort
	inProg    map[string]bool
	bv        bool // integer mode: bit-vectors
	strTheory bool // strings as SMT String
	anon      int
	fresh     int
	// assumptions/abstractions actually used, for evidence
	notes      map[string]bool
	viaPointer bool
	namePkg    map[string]string
	byName     map[string]*Sort
	curKey     string
	strLits    []string
	sentinels  []string
}

func newUniverse(bv bool) *Universe {
	return &Universe{declared: map[string]bool{}, sortCache: map[string]*Sort{}, inProg: map[string]bool{}, bv: bv, notes: map[string]bool{}}
}

func (u *Universe) note(format string, args ...any) { u.notes[fmt.Sprintf(format, args...)] = true }

func (u *Universe) declare(key, decl string) {
	if u.declared[key] {
		return
	}
	u.declared[key] = true
	u.decls = append(u.decls, decl)
}

func (u *Universe) freshName(hint string) string {
	u.fresh++
	return fmt.Sprintf("%s!%d", sanitize(hint), u.fresh)
}

// freshConst declares a new unconstrained constant.
func (u *Universe) freshConst(hint string, s *Sort) Term {
	n := u.freshName(hint)
	u.decls = append(u.decls, fmt.Sprintf("(declare-const %s %s)", n, s.Name))
	return Term{n, s}
}

// define introduces a name for a term (keeps VCs small).
func (u *Universe) define(hint string, t Term) Term {
	if len(t.S) < 24 || t.Sort == nil {
		return t
	}
	n := u.freshName(hint)
	u.decls = append(u.decls, fmt.Sprintf("(define-fun %s () %s %s)", n, t.Sort.Name, t.S))
	return Term{n, t.Sort}
}

// explodedConst declares a constant of sort srt; struct sorts are built from one
// constant per scalar leaf (mk_S leaf...), which keeps solvers away from reasoning about
// datatype-valued unknowns.
func (u *Universe) explodedConst(name string, srt *Sort) Term {
	if srt.Kind != KStruct || srt.building {
		u.decls = append(u.decls, fmt.Sprintf("(declare-const %s %s)", name, srt.Name))
		return Term{name, srt}
	}
	var args []Term
	for _, f := range srt.Fields {
		args = append(args, u.explodedConst(name+"."+f.Name, f.Sort))
	}
	return app(srt, "mk_"+srt.Name, args...)
}

// defineConst names a term with a declared constant plus a defining equation; unlike
// define (a macro) the name stays a symbol inside quantifier patterns.
func (u *Universe) defineConst(hint string, t Term) Term {
	n := u.freshName(hint)
	u.decls = append(u.decls, fmt.Sprintf("(declare-const %s %s)\n(assert (= %s %s))", n, t.Sort.Name, n, t.S))
	return Term{n, t.Sort}
}

type unsupported struct{ msg string }

func (e unsupported) Error() string { return e.msg }

func reject(format string, args ...any) {
	panic(unsupported{fmt.Sprintf(format, args...)})
}

func isErrorType(t types.Type) bool {
	n, ok := types.Unalias(t).(*types.Named)
	return ok && n.Obj().Pkg() == nil && n.Obj().Name() == "error"
}

var unmodelledNamed = map[string]bool{
	"sync.Mutex": true, "sync.RWMutex": true, "sync.WaitGroup": true, "sync.Once": true, "sync.Cond": true, "sync.Map": true,
	"sync/atomic.Int64": true, "sync/atomic.Int32": true, "sync/atomic.Bool": true, "sync/atomic.Uint64": true, "sync/atomic.Uint32": true, "sync/atomic.Value": true,
	"github.com/synnaxlabs/alamos.Instrumentation": true,
	"github.com/synnaxlabs/alamos.Logger":          true,
	"github.com/synnaxlabs/alamos.Tracer":          true,
	"github.com/synnaxlabs/alamos.Span":            true,
	"time.Time":                                    true,
	"time.Ticker":                                  true,
	"time.Timer":                                   true,
}

func namedKey(n *types.Named) string {
	if n.Obj().Pkg() == nil {
		return n.Obj().Name()
	}
	return n.Obj().Pkg().Path() + "." + n.Obj().Name()
}

// sortOf maps a Go type to an SMT sort; nil means "not modelled".
func (u *Universe) sortOf(t types.Type) *Sort {
	t = types.Unalias(t)
	key := types.TypeString(t, nil)
	if s, ok := u.sortCache[key]; ok {
		if s != nil && s.building && !u.viaPointer {
			return nil // recursive type through a value path: not modelled
		}
		return s
	}
	switch t.(type) {
	case *types.Pointer, *types.Slice, *types.Map:
		// cheap wrappers: recursion is cut at the struct they (transitively) refer to
		s := u.sortOf1(t, key)
		u.sortCache[key] = s
		return s
	}
	if u.inProg[key] {
		return nil
	}
	u.inProg[key] = true
	u.curKey = key
	s := u.sortOf1(t, key)
	delete(u.inProg, key)
	u.sortCache[key] = s
	return s
}

func (u *Universe) opaque(name string) *Sort {
	name = sanitize(name)
	u.declare("sort:"+name, fmt.Sprintf("(declare-sort %s 0)", name))
	return &Sort{Name: name, Kind: KOpaque}
}

func (u *Universe) sortOf1(t types.Type, key string) *Sort {
	switch t := t.(type) {
	case *types.Basic:
		info := t.Info()
		switch {
		case info&types.IsBoolean != 0:
			return sortBool
		case info&types.IsInteger != 0:
			if u.bv {
				return bvSort(intWidth(t))
			}
			return sortInt
		case info&types.IsString != 0:
			if u.strTheory {
				return &Sort{Name: "String", Kind: KString}
			}
			s := u.opaque("Str")
			s.Kind = KString
			return s
		case info&types.IsFloat != 0:
			return u.opaque("Float")
		case t.Kind() == types.UnsafePointer:
			return nil
		case t.Kind() == types.UntypedNil:
			return sortInt
		}
		return nil
	case *types.Named:
		if isErrorType(t) {
			return &Sort{Name: "Int", Kind: KErr}
		}
		if unmodelledNamed[namedKey(t)] {
			return nil
		}
		switch ut := t.Underlying().(type) {
		case *types.Struct:
			name := "S_" + t.Obj().Name()
			if t.Obj().Pkg() != nil {
				name = "S_" + t.Obj().Pkg().Name() + "_" + t.Obj().Name()
				// two packages may share a name (cesium/internal/channel vs distribution/channel)
				if u.namePkg == nil {
					u.namePkg = map[string]string{}
				}
				if p, ok := u.namePkg[name]; ok && p != t.Obj().Pkg().Path() {
					name = name + "_" + sanitize(strings.TrimPrefix(t.Obj().Pkg().Path(), "github.com/synnaxlabs/"))
				} else {
					u.namePkg[name] = t.Obj().Pkg().Path()
				}
			}
			if ta := t.TypeArgs(); ta != nil {
				for i := 0; i < ta.Len(); i++ {
					as := u.sortOf(ta.At(i))
					if as == nil {
						return nil
					}
					name += "_" + sanitize(as.Name)
				}
			}
			return u.structSort(name, ut, key)
		case *types.Interface:
			return &Sort{Name: "Int", Kind: KOpaque} // interface values: opaque ints
		default:
			return u.sortOf(ut)
		}
	case *types.Struct:
		u.anon++
		return u.structSort(fmt.Sprintf("S_anon%d", u.anon), t, key)
	case *types.Pointer:
		saved := u.viaPointer
		u.viaPointer = true
		es := u.sortOf(t.Elem())
		u.viaPointer = saved
		if es == nil {
			return nil
		}
		return &Sort{Name: "Int", Kind: KRef, Elem: es}
	case *types.Slice:
		es := u.sortOf(t.Elem())
		if es == nil {
			return nil
		}
		return u.sliceSort(es)
	case *types.Array:
		es := u.sortOf(t.Elem())
		if es == nil {
			return nil
		}
		return &Sort{Name: "(Array Int " + es.Name + ")", Kind: KArray, Elem: es, Width: int(t.Len())}
	case *types.Map:
		ks, vs := u.sortOf(t.Key()), u.sortOf(t.Elem())
		if ks == nil || vs == nil {
			return nil
		}
		return &Sort{Name: "Int", Kind: KRef, Key: ks, Elem: vs}
	case *types.TypeParam:
		return u.opaque("TP_" + t.Obj().Name())
	case *types.Interface:
		return &Sort{Name: "Int", Kind: KOpaque}
	case *types.Signature, *types.Chan, *types.Tuple:
		return nil
	}
	return nil
}

func (u *Universe) sliceSort(es *Sort) *Sort {
	name := "Sl_" + sanitize(es.Name)
	if s, ok := u.sortCache["slice:"+name]; ok {
		return s
	}
	s := &Sort{Name: name, Kind: KSlice, Elem: es}
	u.declare("sort:"+name, fmt.Sprintf("(declare-datatypes ((%s 0)) (((mk_%s (arr_%s (Array Int %s)) (len_%s Int)))))", name, name, name, es.Name, name))
	u.sortCache["slice:"+name] = s
	return s
}

func (u *Universe) structSort(name string, st *types.Struct, key string) *Sort {
	s := &Sort{Name: name, Kind: KStruct, building: true}
	if u.byName == nil {
		u.byName = map[string]*Sort{}
	}
	u.byName[name] = s
	// register early so that pointers back to this struct resolve to the same sort
	if key != "" {
		u.sortCache[key] = s
	}
	savedVP := u.viaPointer
	u.viaPointer = false
	defer func() { s.building = false; u.viaPointer = savedVP }()
	for i := 0; i < st.NumFields(); i++ {
		f := st.Field(i)
		if f.Name() == "_" {
			continue
		}
		fs := u.sortOf(f.Type())
		if fs == nil {
			continue
		}
		s.Fields = append(s.Fields, &FieldInfo{Name: f.Name(), Accessor: name + "_" + f.Name(), Sort: fs, GoType: f.Type()})
	}
	var fl []string
	for _, f := range s.Fields {
		fl = append(fl, fmt.Sprintf("(%s %s)", f.Accessor, f.Sort.Name))
	}
	if len(fl) == 0 {
		u.declare("sort:"+name, fmt.Sprintf("(declare-datatypes ((%s 0)) (((mk_%s))))", name, name))
	} else {
		u.declare("sort:"+name, fmt.Sprintf("(declare-datatypes ((%s 0)) (((mk_%s %s))))", name, name, strings.Join(fl, " ")))
	}
	return s
}

func (s *Sort) field(name string) *FieldInfo {
	for _, f := range s.Fields {
		if f.Name == name {
			return f
		}
	}
	return nil
}

func intWidth(b *types.Basic) int {
	switch b.Kind() {
	case types.Int8, types.Uint8:
		return 8
	case types.Int16, types.Uint16:
		return 16
	case types.Int32, types.Uint32:
		return 32
	}
	return 64
}

func isUnsigned(t types.Type) bool {
	b, ok := t.Underlying().(*types.Basic)
	return ok && b.Info()&types.IsUnsigned != 0
}

func isInteger(t types.Type) bool {
	b, ok := t.Underlying().(*types.Basic)
	return ok && b.Info()&types.IsInteger != 0
}

// intRange returns the inclusive range of a Go integer type.
func intRange(t types.Type) (lo, hi *big.Int) {
	b := t.Underlying().(*types.Basic)
	w := uint(intWidth(b))
	if b.Info()&types.IsUnsigned != 0 {
		return big.NewInt(0), new(big.Int).Sub(new(big.Int).Lsh(big.NewInt(1), w), big.NewInt(1))
	}
	h := new(big.Int).Lsh(big.NewInt(1), w-1)
	return new(big.Int).Neg(h), new(big.Int).Sub(h, big.NewInt(1))
}

// inRange is the predicate "term is a value of Go integer type t" (int mode only).
func (u *Universe) inRange(t types.Type, x Term) Term {
	if u.bv || !isInteger(t) {
		return boolT(true)
	}
	lo, hi := intRange(t)
	return and(mk(sortBool, "(<= %s %s)", intLit(lo).S, x.S), mk(sortBool, "(<= %s %s)", x.S, intLit(hi).S))
}

// zero value of a sort.
func (u *Universe) zero(s *Sort) Term {
	switch s.Kind {
	case KInt, KRef, KErr:
		return Term{"0", s}
	case KBool:
		return boolT(false)
	case KBV:
		return Term{fmt.Sprintf("(_ bv0 %d)", s.Width), s}
	case KStruct:
		var args []Term
		for _, f := range s.Fields {
			args = append(args, u.zero(f.Sort))
		}
		return app(s, "mk_"+s.Name, args...)
	case KSlice:
		n := "zeroarr_" + s.Name
		u.declare("const:"+n, fmt.Sprintf("(declare-const %s (Array Int %s))", n, s.Elem.Name))
		return mk(s, "(mk_%s %s 0)", s.Name, n)
	case KArray:
		return mk(s, "((as const %s) %s)", s.Name, u.zero(s.Elem).S)
	case KString:
		if u.strTheory {
			return Term{"\"\"", s}
		}
		u.declare("const:str_empty", fmt.Sprintf("(declare-const str_empty %s)", s.Name))
		return Term{"str_empty", s}
	case KOpaque:
		if s.Name == "Int" {
			return Term{"0", s}
		}
		n := "zero_" + s.Name
		u.declare("const:"+n, fmt.Sprintf("(declare-const %s %s)", n, s.Name))
		return Term{n, s}
	}
	reject("zero value of sort %s", s.Name)
	return Term{}
}

// slice helpers
func slLen(s Term) Term { return mk(sortInt, "(len_%s %s)", s.Sort.Name, s.S) }
func slArr(s Term) Term {
	return Term{fmt.Sprintf("(arr_%s %s)", s.Sort.Name, s.S), &Sort{Name: "(Array Int " + s.Sort.Elem.Name + ")", Kind: KSMTArray, Elem: s.Sort.Elem}}
}
func slMk(sort *Sort, arr, n Term) Term { return mk(sort, "(mk_%s %s %s)", sort.Name, arr.S, n.S) }
func slAt(s Term, i Term) Term          { return sel(slArr(s), i, s.Sort.Elem) }

// struct helpers
func (u *Universe) getField(x Term, name string) (Term, bool) {
	f := x.Sort.field(name)
	if f == nil {
		return Term{}, false
	}
	return mk(f.Sort, "(%s %s)", f.Accessor, x.S), true
}

func (u *Universe) setField(x Term, name string, v Term) Term {
	var args []Term
	found := false
	for _, f := range x.Sort.Fields {
		if f.Name == name {
			args = append(args, v)
			found = true
		} else {
			args = append(args, mk(f.Sort, "(%s %s)", f.Accessor, x.S))
		}
	}
	if !found {
		reject("write to unmodelled field %s of %s", name, x.Sort.Name)
	}
	return app(x.Sort, "mk_"+x.Sort.Name, args...)
}

// heap name for a ref sort
func heapName(s *Sort) string {
	if s.Key != nil {
		n := "M_" + sanitize(s.Key.Name) + "_" + sanitize(s.Elem.Name)
		// Maps whose values are references of different Go types cannot alias (the map types
		// differ and are not convertible), but their references are all integers: without the
		// pointee in the heap's name they would share one heap and every write to one of them
		// would need a distinctness fact about all the others.
		if e := s.Elem; e != nil && e.Kind == KRef {
			if e.Key != nil {
				n += "_" + heapName(e)
			} else if e.Elem != nil {
				n += "_" + sanitize(e.Elem.Name)
			}
		}
		return n
	}
	return "H_" + sanitize(s.Elem.Name)
}

// mapSort returns the datatype that stores one map's content.
func (u *Universe) mapContentSort(ref *Sort) *Sort {
	name := "Mp_" + sanitize(ref.Key.Name) + "_" + sanitize(ref.Elem.Name)
	if s, ok := u.sortCache["map:"+name]; ok {
		return s
	}
	s := &Sort{Name: name, Kind: KStruct, Key: ref.Key, Elem: ref.Elem}
	s.Fields = []*FieldInfo{
		{Name: "dom", Accessor: name + "_dom", Sort: &Sort{Name: "(Array " + ref.Key.Name + " Bool)", Kind: KSMTArray, Key: ref.Key, Elem: sortBool}},
		{Name: "val", Accessor: name + "_val", Sort: &Sort{Name: "(Array " + ref.Key.Name + " " + ref.Elem.Name + ")", Kind: KSMTArray, Key: ref.Key, Elem: ref.Elem}},
		{Name: "card", Accessor: name + "_card", Sort: sortInt},
	}
	u.declare("sort:"+name, fmt.Sprintf("(declare-datatypes ((%s 0)) (((mk_%s (%s_dom (Array %s Bool)) (%s_val (Array %s %s)) (%s_card Int)))))", name, name, name, ref.Key.Name, name, ref.Key.Name, ref.Elem.Name, name))
	u.sortCache["map:"+name] = s
	return s
}

func (u *Universe) heapSort(ref *Sort) *Sort {
	var content *Sort
	if ref.Key != nil {
		content = u.mapContentSort(ref)
	} else {
		content = ref.Elem
	}
	return &Sort{Name: "(Array Int " + content.Name + ")", Kind: KSMTArray, Elem: content}
}
