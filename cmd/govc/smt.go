package main

import (
	"fmt"
	"go/types"
	"math/big"
	"strings"
)

// Sort is an SMT sort. Name is the SMT-LIB spelling.
type Sort struct {
	Name string
	Kind SortKind
	// Slice / array element, map key/value
	Elem, Key *Sort
	Width     int // bit-vectors
	// struct datatype
	Fields   []*FieldInfo
	building bool
}

type SortKind int

const (
	KInt SortKind = iota
	KBool
	KBV
	KStruct
	KSlice
	KArray // Go fixed-size array: (Array Int Elem)
	KRef   // pointer to struct / map reference: Int
	KErr   // error: Int
	KOpaque
	KString
	KSMTArray // raw SMT array (spec-level)
)

type FieldInfo struct {
	Name     string // Go field name
	Accessor string // SMT accessor
	Sort     *Sort
	GoType   types.Type // the field's Go type (for typed-heap range facts)
}

var (
	sortInt  = &Sort{Name: "Int", Kind: KInt}
	sortBool = &Sort{Name: "Bool", Kind: KBool}
)

// Term is an SMT term with its sort.
type Term struct {
	S    string
	Sort *Sort
}

func (t Term) String() string { return t.S }

func mk(sort *Sort, format string, args ...any) Term {
	return Term{S: fmt.Sprintf(format, args...), Sort: sort}
}

func boolT(b bool) Term {
	if b {
		return Term{"true", sortBool}
	}
	return Term{"false", sortBool}
}

func intLit(v *big.Int) Term {
	if v.Sign() < 0 {
		return Term{"(- " + new(big.Int).Neg(v).String() + ")", sortInt}
	}
	return Term{v.String(), sortInt}
}

func intT(v int64) Term { return intLit(big.NewInt(v)) }

func bvLit(v *big.Int, width int) Term {
	m := new(big.Int).Lsh(big.NewInt(1), uint(width))
	x := new(big.Int).Mod(v, m)
	return Term{fmt.Sprintf("(_ bv%s %d)", x.String(), width), bvSort(width)}
}

var bvSorts = map[int]*Sort{}

func bvSort(w int) *Sort {
	if s, ok := bvSorts[w]; ok {
		return s
	}
	s := &Sort{Name: fmt.Sprintf("(_ BitVec %d)", w), Kind: KBV, Width: w}
	bvSorts[w] = s
	return s
}

func and(ts ...Term) Term {
	var parts []string
	for _, t := range ts {
		if t.S == "true" {
			continue
		}
		if t.S == "false" {
			return boolT(false)
		}
		parts = append(parts, t.S)
	}
	switch len(parts) {
	case 0:
		return boolT(true)
	case 1:
		return Term{parts[0], sortBool}
	}
	return Term{"(and " + strings.Join(parts, " ") + ")", sortBool}
}

func or(ts ...Term) Term {
	var parts []string
	for _, t := range ts {
		if t.S == "false" {
			continue
		}
		if t.S == "true" {
			return boolT(true)
		}
		parts = append(parts, t.S)
	}
	switch len(parts) {
	case 0:
		return boolT(false)
	case 1:
		return Term{parts[0], sortBool}
	}
	return Term{"(or " + strings.Join(parts, " ") + ")", sortBool}
}

func not(t Term) Term {
	switch t.S {
	case "true":
		return boolT(false)
	case "false":
		return boolT(true)
	}
	if strings.HasPrefix(t.S, "(not ") && balanced(t.S[5:len(t.S)-1]) {
		return Term{t.S[5 : len(t.S)-1], sortBool}
	}
	return Term{"(not " + t.S + ")", sortBool}
}

func balanced(s string) bool {
	d := 0
	for i, c := range s {
		switch c {
		case '(':
			d++
		case ')':
			d--
			if d < 0 {
				return false
			}
			if d == 0 && i != len(s)-1 {
				return false
			}
		case ' ':
			if d == 0 {
				return false
			}
		}
	}
	return d == 0
}

func implies(a, b Term) Term {
	if a.S == "true" {
		return b
	}
	if a.S == "false" || b.S == "true" {
		return boolT(true)
	}
	return Term{"(=> " + a.S + " " + b.S + ")", sortBool}
}

func eq(a, b Term) Term {
	if a.S == b.S {
		return boolT(true)
	}
	return Term{"(= " + a.S + " " + b.S + ")", sortBool}
}

func ite(c, a, b Term) Term {
	if c.S == "true" {
		return a
	}
	if c.S == "false" {
		return b
	}
	if a.S == b.S {
		return a
	}
	return Term{"(ite " + c.S + " " + a.S + " " + b.S + ")", a.Sort}
}

func sel(arr Term, idx Term, elem *Sort) Term {
	return Term{"(select " + arr.S + " " + idx.S + ")", elem}
}

func store(arr Term, idx Term, v Term) Term {
	return Term{"(store " + arr.S + " " + idx.S + " " + v.S + ")", arr.Sort}
}

func app(sort *Sort, fn string, args ...Term) Term {
	if len(args) == 0 {
		return Term{fn, sort}
	}
	var sb strings.Builder
	sb.WriteString("(")
	sb.WriteString(fn)
	for _, a := range args {
		sb.WriteString(" ")
		sb.WriteString(a.S)
	}
	sb.WriteString(")")
	return Term{sb.String(), sort}
}

// sanitize makes a string usable inside an SMT symbol.
func sanitize(s string) string {
	var sb strings.Builder
	for _, c := range s {
		switch {
		case c >= 'a' && c <= 'z', c >= 'A' && c <= 'Z', c >= '0' && c <= '9', c == '_':
			sb.WriteRune(c)
		case c == '.', c == '/', c == '-':
			sb.WriteRune('_')
		case c == '*':
			sb.WriteString("P")
		case c == '[':
			sb.WriteString("L")
		case c == ']':
			sb.WriteString("R")
		case c == '@':
			sb.WriteString("_occ") // obligation name suffix of a repeated occurrence: must not look like a ".N" part
		default:
			sb.WriteString("_")
		}
	}
	return sb.String()
}
