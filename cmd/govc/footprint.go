package main

import (
	"go/ast"
	"go/token"
	"sort"
	"strings"
)

// modTarget is one entry of a modifies clause: a whole object (pointer or map),
// or, written `&x.f`, a single field of the object x points to.
type modTarget struct {
	ref   Term
	field string // "" = whole object
}

// footprint groups targets per heap.
type footprint map[string][]modTarget

// evalModTarget evaluates a modifies-wrapper. vals/lookup as in evalWrapper.
func (fv *FuncVerifier) evalModTarget(pkgPath, wrapper string, vals []Term, st *State) modTarget {
	field := ""
	r := fv.evalWrapperPick(pkgPath, wrapper, vals, st, nil, func(e ast.Expr) ast.Expr {
		e = ast.Unparen(e)
		if u, ok := e.(*ast.UnaryExpr); ok && u.Op == token.AND {
			if se, ok := ast.Unparen(u.X).(*ast.SelectorExpr); ok {
				field = se.Sel.Name
				return se.X
			}
		}
		return e
	})
	if r.Sort == nil || r.Sort.Kind != KRef {
		reject("modifies target in %s is not a pointer, a map or &ptr.field", wrapper)
	}
	if field != "" && (r.Sort.Key != nil || r.Sort.Elem.Kind != KStruct || r.Sort.Elem.field(field) == nil) {
		reject("modifies target &x.%s in %s: x must point to a struct with modelled field %s", field, wrapper, field)
	}
	return modTarget{r, field}
}

func (fp footprint) add(t modTarget) { fp[heapName(t.ref.Sort)] = append(fp[heapName(t.ref.Sort)], t) }

func (fp footprint) names() []string {
	var out []string
	for k := range fp {
		out = append(out, k)
	}
	sort.Strings(out)
	return out
}

// frameFormula states that heap `after` agrees with heap `before` outside the
// targets. x is the variable (bound or Skolem) ranging over references; allocated
// restricts the claim to objects allocated in the `before` state ("" = all).
// The result is a list of conjuncts: one quantifiable over x, plus per-field-target facts.
func (fv *FuncVerifier) frameConjuncts(targets []modTarget, ref *Sort, before, after Term, x string, alloc string) (general Term, perField []Term) {
	var hyp []Term
	if alloc != "" {
		hyp = append(hyp, mk(sortBool, "(select %s %s)", alloc, x))
	}
	seen := map[string]bool{}
	for _, t := range targets {
		if !seen[t.ref.S] {
			seen[t.ref.S] = true
			hyp = append(hyp, mk(sortBool, "(not (= %s %s))", x, t.ref.S))
		}
	}
	general = implies(and(hyp...), mk(sortBool, "(= (select %s %s) (select %s %s))", after.S, x, before.S, x))
	// field-level targets: the other fields of that object are unchanged, provided the
	// object is not also a whole-object target or a field target under another name
	byRef := map[string][]string{}
	var order []string
	whole := map[string]bool{}
	for _, t := range targets {
		if t.field == "" {
			whole[t.ref.S] = true
			continue
		}
		if _, ok := byRef[t.ref.S]; !ok {
			order = append(order, t.ref.S)
		}
		byRef[t.ref.S] = append(byRef[t.ref.S], t.field)
	}
	if ref.Key != nil || ref.Elem.Kind != KStruct {
		return
	}
	for _, rs := range order {
		if whole[rs] {
			continue
		}
		var distinct []Term
		for other := range seen {
			if other != rs {
				distinct = append(distinct, mk(sortBool, "(not (= %s %s))", rs, other))
			}
		}
		var same []Term
		for _, f := range ref.Elem.Fields {
			listed := false
			for _, lf := range byRef[rs] {
				if lf == f.Name {
					listed = true
				}
			}
			if !listed {
				same = append(same, mk(sortBool, "(= (%s (select %s %s)) (%s (select %s %s)))", f.Accessor, after.S, rs, f.Accessor, before.S, rs))
			}
		}
		sort.Slice(distinct, func(i, j int) bool { return distinct[i].S < distinct[j].S })
		perField = append(perField, implies(and(distinct...), and(same...)))
	}
	return
}

// assumeFrame: havoc semantics. Returns nothing; adds assumptions to st.
func (fv *FuncVerifier) assumeFrame(st *State, targets []modTarget, ref *Sort, before, after Term, alloc string) {
	g, pf := fv.frameConjuncts(targets, ref, before, after, "x!f", alloc)
	pat := ""
	if !strings.Contains(after.S, "(") {
		pat = " :pattern ((select " + after.S + " x!f))"
	}
	if pat != "" {
		st.assume(mk(sortBool, "(forall ((x!f Int)) (! %s%s))", g.S, pat))
	} else {
		st.assume(mk(sortBool, "(forall ((x!f Int)) %s)", g.S))
	}
	for _, c := range pf {
		st.assume(c)
	}
	// ground instances of the frame for the references held in variables: saves the
	// solver from having to find them by quantifier instantiation
	hn := heapName(ref)
	var hints []string
	seenHint := map[string]bool{}
	for _, v := range st.vars {
		if v.Sort != nil && v.Sort.Kind == KRef && heapName(v.Sort) == hn && !seenHint[v.S] && len(v.S) < 200 {
			seenHint[v.S] = true
			hints = append(hints, v.S)
		}
	}
	sort.Strings(hints)
	if len(hints) > 12 {
		hints = hints[:12]
	}
	for _, h := range hints {
		gi, _ := fv.frameConjuncts(targets, ref, before, after, h, alloc)
		st.assume(gi)
	}
}

// frameGoal: the proof obligation for a Skolem reference x.
func (fv *FuncVerifier) frameGoal(targets []modTarget, ref *Sort, before, after Term, alloc string) Term {
	x := fv.u.freshConst("fx", sortInt)
	g, pf := fv.frameConjuncts(targets, ref, before, after, x.S, alloc)
	return and(append([]Term{g}, pf...)...)
}
