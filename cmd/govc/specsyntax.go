package main

import (
	"fmt"
	"go/scanner"
	"go/token"
	"strings"
)

// The specification language is Go expression syntax plus
//   A ==> B                      (implication, lowest precedence, right associative)
//   forall x T, y U :: P         (extends as far right as possible inside its group)
//   exists x T :: P
//   old(e)
// rewriteSpec turns it into plain Go that the type checker accepts:
//   __implies(A, B), __forall(func(x T, y U) bool { return P }), __old(e)

type stok struct {
	tok token.Token
	lit string
	pos int
}

func scanSpec(src string) ([]stok, error) {
	fset := token.NewFileSet()
	f := fset.AddFile("spec", -1, len(src))
	var s scanner.Scanner
	var errs []string
	s.Init(f, []byte(src), func(pos token.Position, msg string) { errs = append(errs, msg) }, 0)
	var out []stok
	for {
		pos, tok, lit := s.Scan()
		if tok == token.EOF {
			break
		}
		if tok == token.SEMICOLON && lit == "\n" {
			continue
		}
		if lit == "" {
			lit = tok.String()
		}
		out = append(out, stok{tok, lit, int(pos) - f.Base()})
	}
	if len(errs) > 0 {
		return nil, fmt.Errorf("scan %q: %s", src, strings.Join(errs, "; "))
	}
	return out, nil
}

func rewriteSpec(src string) (string, error) {
	toks, err := scanSpec(src)
	if err != nil {
		return "", err
	}
	p := &specRewriter{toks: toks}
	out := p.group(0, len(toks))
	return out, p.err
}

type specRewriter struct {
	toks []stok
	err  error
	lazy bool // executable form: A ==> B becomes (!(A) || (B)) so that B is not evaluated when A is false
}

// rewriteSpecExec is rewriteSpec for code that will actually run (replay tests).
func rewriteSpecExec(src string) (string, error) {
	toks, err := scanSpec(src)
	if err != nil {
		return "", err
	}
	p := &specRewriter{toks: toks, lazy: true}
	out := p.group(0, len(toks))
	return out, p.err
}

func isOpen(t token.Token) bool  { return t == token.LPAREN || t == token.LBRACK || t == token.LBRACE }
func isClose(t token.Token) bool { return t == token.RPAREN || t == token.RBRACK || t == token.RBRACE }

// matching returns the index of the bracket closing the one at i.
func (p *specRewriter) matching(i, end int) int {
	d := 0
	for j := i; j < end; j++ {
		if isOpen(p.toks[j].tok) {
			d++
		} else if isClose(p.toks[j].tok) {
			d--
			if d == 0 {
				return j
			}
		}
	}
	p.err = fmt.Errorf("unbalanced brackets in specification")
	return end - 1
}

func (p *specRewriter) isImpl(i, end int) bool {
	return i+1 < end && p.toks[i].tok == token.EQL && p.toks[i+1].tok == token.GTR && p.toks[i+1].pos == p.toks[i].pos+2
}

func (p *specRewriter) isColons(i, end int) bool {
	return i+1 < end && p.toks[i].tok == token.COLON && p.toks[i+1].tok == token.COLON
}

// group rewrites tokens [lo,hi) that form the inside of one bracket group
// (or the whole expression): a comma separated list of segments.
func (p *specRewriter) group(lo, hi int) string {
	var parts []string
	i := lo
	for i < hi {
		// quantifier at segment start swallows the rest of the group
		// (a quantifier keyword is followed by a binder name; a program variable called `exists` is not)
		if p.toks[i].tok == token.IDENT && (p.toks[i].lit == "forall" || p.toks[i].lit == "exists") && i+1 < hi && p.toks[i+1].tok == token.IDENT {
			parts = append(parts, p.quant(i, hi))
			i = hi
			break
		}
		// find end of this segment: top-level comma
		j := i
		for j < hi {
			if isOpen(p.toks[j].tok) {
				j = p.matching(j, hi) + 1
				continue
			}
			if p.toks[j].tok == token.COMMA {
				break
			}
			j++
		}
		parts = append(parts, p.segment(i, j))
		i = j + 1
	}
	return strings.Join(parts, ", ")
}

func (p *specRewriter) quant(lo, hi int) string {
	kind := p.toks[lo].lit
	j := lo + 1
	for j < hi && !p.isColons(j, hi) {
		j++
	}
	if j >= hi {
		p.err = fmt.Errorf("quantifier without '::'")
		return ""
	}
	binders := p.plain(lo+1, j)
	body := p.group(j+2, hi)
	return fmt.Sprintf("__%s(func(%s) bool { return %s })", kind, binders, body)
}

// segment: no top-level commas inside [lo,hi).
func (p *specRewriter) segment(lo, hi int) string {
	// top-level implication?
	for j := lo; j < hi; j++ {
		if isOpen(p.toks[j].tok) {
			j = p.matching(j, hi)
			continue
		}
		if p.isImpl(j, hi) {
			lhs := p.segmentNoImpl(lo, j)
			// rhs may start with a quantifier
			rhs := p.group(j+2, hi)
			if p.lazy {
				return fmt.Sprintf("(!(%s) || (%s))", lhs, rhs)
			}
			return fmt.Sprintf("__implies(%s, %s)", lhs, rhs)
		}
	}
	return p.segmentNoImpl(lo, hi)
}

func (p *specRewriter) segmentNoImpl(lo, hi int) string {
	var sb strings.Builder
	for j := lo; j < hi; j++ {
		t := p.toks[j]
		if isOpen(t.tok) {
			m := p.matching(j, hi)
			sb.WriteString(t.lit)
			sb.WriteString(p.group(j+1, m))
			sb.WriteString(p.toks[m].lit)
			j = m
			sb.WriteString(" ")
			continue
		}
		if t.tok == token.IDENT && t.lit == "old" && j+1 < hi && p.toks[j+1].tok == token.LPAREN {
			sb.WriteString("__old")
			continue
		}
		sb.WriteString(t.lit)
		if j+1 < hi && needSpace(t, p.toks[j+1]) {
			sb.WriteString(" ")
		}
	}
	return strings.TrimSpace(sb.String())
}

func (p *specRewriter) plain(lo, hi int) string {
	var sb strings.Builder
	for j := lo; j < hi; j++ {
		sb.WriteString(p.toks[j].lit)
		if j+1 < hi && needSpace(p.toks[j], p.toks[j+1]) {
			sb.WriteString(" ")
		}
	}
	return sb.String()
}

func needSpace(a, b stok) bool {
	if a.tok == token.PERIOD || b.tok == token.PERIOD {
		return false
	}
	if b.tok == token.LPAREN || b.tok == token.LBRACK || b.tok == token.COMMA {
		return a.tok == token.COMMA || a.tok.IsOperator() && a.tok != token.RPAREN && a.tok != token.RBRACK
	}
	if a.tok == token.LPAREN || a.tok == token.LBRACK {
		return false
	}
	if b.tok == token.RPAREN || b.tok == token.RBRACK {
		return false
	}
	if a.tok == token.NOT || a.tok == token.MUL && false {
		return false
	}
	return true
}
