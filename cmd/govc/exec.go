package main

import (
	"fmt"
	"go/ast"
	"go/token"
	"go/types"
	"regexp"
	"sort"
	"strconv"
	"strings"

	"golang.org/x/tools/go/packages"
)

// State is one symbolic state: variable store, heaps, path condition.
type State struct {
	vars  map[types.Object]Term
	heaps map[string]Term
	pc    []Term
}

func (s *State) clone() *State {
	n := &State{vars: make(map[types.Object]Term, len(s.vars)), heaps: make(map[string]Term, len(s.heaps)), pc: append([]Term(nil), s.pc...)}
	for k, v := range s.vars {
		n.vars[k] = v
	}
	for k, v := range s.heaps {
		n.heaps[k] = v
	}
	return n
}

func (s *State) assume(t Term) {
	if t.S == "true" {
		return
	}
	s.pc = append(s.pc, t)
}

// Obligation is one SMT query.
type Obligation struct {
	Name   string
	Kind   string
	Func   string
	Pos    string
	Goal   string // human readable
	SMT    string
	Expect string // "unsat" (proof) or "sat" (cover)
	Result string
	Solver string
	TimeS  float64
	Output string
	File   string
	Agree  int
	replay *replayInfo
	AltSMT string // covers: the state before the step; if that is unsat too the path is dead, not vacuous
}

// frame is one function activation (the verified function or an inlined one).
type frame struct {
	fd       *funcDecl
	info     *types.Info
	pkg      *packages.Package
	results  []types.Object // result variables (named or synthetic)
	defers   []func(st *State)
	rets     []*State // collected return states (inlined frames)
	top      bool
	loops    []*loopFrame
	loopBase int // ordinal of first loop of this body within the enclosing declaration
	tsubst   map[*types.TypeParam]types.Type
}

type loopFrame struct {
	breaks, continues []*State
	label             string
}

// FuncVerifier verifies one function against its contract.
type FuncVerifier struct {
	prog                                         *Prog
	spec                                         *FuncSpec
	fd                                           *funcDecl
	u                                            *Universe
	obls                                         []*Obligation
	frames                                       []*frame
	autoFrames                                   int // > 0 while executing an auto-inlined helper that contains a range loop
	entry                                        *State
	initHeaps                                    map[string]Term
	allocs                                       map[string]Term // per heap: allocated set at entry
	counters                                     map[string]int
	name                                         string
	specMode                                     int // >0: evaluating specification (no obligations, no definitions)
	termMode                                     bool
	oldState                                     *State
	pureDefs                                     map[string]*pureDef
	pureHeaps                                    *[]heapFormal // heaps used by the pure function being built
	closures                                     map[types.Object]*closure
	assumptions                                  map[string]bool
	loopOrdinals                                 map[ast.Stmt]int
	retOrdinal                                   int
	quantDepth                                   int
	bound                                        map[types.Object]Term
	seenStack                                    []types.Object
	rmStack                                      []Term
	riStack                                      []types.Object
	rcStack                                      []types.Object // iteration counters of the enclosing map range loops
	nameCount                                    map[string]int // obligation names handed out so far (uniqueName)
	curCall                                      *ast.CallExpr
	pick                                         func(ast.Expr) ast.Expr
	clausePick                                   func(ast.Expr) ast.Expr
	pendingFresh                                 []Term
	noAllocAssume                                bool
	oldBound                                     map[types.Object]Term
	curClause                                    *Clause
	anchorStmts                                  map[ast.Stmt][]int
	letObjs                                      map[string]types.Object
	recvVar                                      *types.Var
	wgVars                                       map[types.Object]*types.Var
	yields                                       map[types.Object]*yieldCtx
	rfOverride                                   *rangeFuncOverride
	clauseCtx                                    *clauseCtx
	rfPending                                    *rangeFuncOverride
	funcChoices                                  map[types.Object]*funcChoice
	recPure                                      map[string]bool
	noSplit                                      bool
	inClauseHere                                 bool
	heapSorts                                    map[string]*Sort // heap name -> reference sort
	pureUsed, inlined, trustedUsed, contractUsed map[string]bool
	allocBudget                                  func(st *State) Term
}

type closure struct {
	lit *ast.FuncLit
	fr  *frame
}

type heapFormal struct {
	name string
	sort *Sort
}

type pureDef struct {
	formals []string // formal parameter names (including heap formals)
	bodies  []string // SMT bodies, one per result
	names   []string // one SMT function per result
	sorts   []*Sort
	heaps   []heapFormal
}

func (fv *FuncVerifier) frame() *frame     { return fv.frames[len(fv.frames)-1] }
func (fv *FuncVerifier) info() *types.Info { return fv.frame().info }

func (fv *FuncVerifier) typeOf(e ast.Expr) types.Type {
	t := fv.info().TypeOf(e)
	if t == nil {
		reject("no type for expression %T at %s (column %d, frame %s)", e, fv.pos(e.Pos()), fv.prog.fset.Position(e.Pos()).Column, fv.frame().fd.key)
	}
	return fv.subst(t)
}

func (fv *FuncVerifier) subst(t types.Type) types.Type {
	if t == nil {
		return nil
	}
	has := false
	for _, fr := range fv.frames {
		if len(fr.tsubst) > 0 {
			has = true
		}
	}
	if !has {
		return t
	}
	return fv.deepSubst(t, 0)
}

func (fv *FuncVerifier) lookupTParam(tp *types.TypeParam) (types.Type, bool) {
	for i := len(fv.frames) - 1; i >= 0; i-- {
		if m := fv.frames[i].tsubst; m != nil {
			if r, ok := m[tp]; ok {
				return r, true
			}
			// specification wrappers re-declare the type parameters of the function they
			// belong to under the same names: resolve by name in the nearest instantiation
			for k, r := range m {
				if k.Obj().Name() == tp.Obj().Name() && k != tp {
					if fv.frames[len(fv.frames)-1].fd != nil && strings.HasPrefix(fv.frames[len(fv.frames)-1].fd.decl.Name.Name, "__") {
						return r, true
					}
				}
			}
		}
	}
	return nil, false
}

func (fv *FuncVerifier) deepSubst(t types.Type, depth int) types.Type {
	if depth > 8 {
		return t
	}
	switch x := types.Unalias(t).(type) {
	case *types.TypeParam:
		if r, ok := fv.lookupTParam(x); ok && r != t {
			return fv.deepSubst(r, depth+1)
		}
		return t
	case *types.Pointer:
		e := fv.deepSubst(x.Elem(), depth)
		if e != x.Elem() {
			return types.NewPointer(e)
		}
	case *types.Slice:
		e := fv.deepSubst(x.Elem(), depth)
		if e != x.Elem() {
			return types.NewSlice(e)
		}
	case *types.Array:
		e := fv.deepSubst(x.Elem(), depth)
		if e != x.Elem() {
			return types.NewArray(e, x.Len())
		}
	case *types.Map:
		k, e := fv.deepSubst(x.Key(), depth), fv.deepSubst(x.Elem(), depth)
		if k != x.Key() || e != x.Elem() {
			return types.NewMap(k, e)
		}
	case *types.Named:
		ta := x.TypeArgs()
		if ta == nil || ta.Len() == 0 {
			return t
		}
		changed := false
		args := make([]types.Type, ta.Len())
		for i := 0; i < ta.Len(); i++ {
			args[i] = fv.deepSubst(ta.At(i), depth)
			if args[i] != ta.At(i) {
				changed = true
			}
		}
		if changed {
			if inst, err := types.Instantiate(nil, x.Origin(), args, false); err == nil {
				return inst
			}
		}
	}
	return t
}

func (fv *FuncVerifier) pos(p token.Pos) string {
	ps := fv.prog.fset.Position(p)
	return fmt.Sprintf("%s:%d", strings.TrimPrefix(ps.Filename, repoRoot+"/"), ps.Line)
}

func (fv *FuncVerifier) sortOf(t types.Type) *Sort {
	s := fv.u.sortOf(fv.subst(t))
	return s
}

func (fv *FuncVerifier) mustSort(t types.Type, what string) *Sort {
	s := fv.sortOf(t)
	if s == nil {
		reject("%s has unmodelled type %s", what, t)
	}
	return s
}

// heap returns the current value of a heap, creating the initial heap on demand.
func (fv *FuncVerifier) heap(st *State, ref *Sort) Term {
	name := heapName(ref)
	if fv.heapSorts != nil {
		fv.heapSorts[name] = ref
	}
	if h, ok := st.heaps[name]; ok {
		return h
	}
	hs := fv.u.heapSort(ref)
	if fv.termMode && fv.pureHeaps != nil {
		for _, hf := range *fv.pureHeaps {
			if hf.name == name {
				return Term{"hp_" + name, hs}
			}
		}
		*fv.pureHeaps = append(*fv.pureHeaps, heapFormal{name, hs})
		return Term{"hp_" + name, hs}
	}
	if h, ok := fv.initHeaps[name]; ok {
		return h
	}
	n := name + "!0"
	fv.u.declare("heap:"+n, fmt.Sprintf("(declare-const %s %s)", n, hs.Name))
	h := Term{n, hs}
	fv.nilMapAxiom(name, h)
	fv.initHeaps[name] = h
	return h
}

// nilMapAxiom: a nil map has no entries (reads of heap slot 0 see an empty map).
func (fv *FuncVerifier) nilMapAxiom(heapName string, h Term) {
	fv.typedHeapAxiom(h)
	if !strings.HasPrefix(heapName, "M_") || h.Sort == nil || h.Sort.Elem == nil || len(h.Sort.Elem.Fields) < 3 {
		return
	}
	cs := h.Sort.Elem
	fv.u.decls = append(fv.u.decls, fmt.Sprintf("(assert (and (= (%s (select %s 0)) ((as const %s) false)) (= (%s (select %s 0)) 0)))",
		cs.Fields[0].Accessor, h.S, cs.Fields[0].Sort.Name, cs.Fields[2].Accessor, h.S))
	// len(m) of every map in this heap is a cardinality: non-negative, zero exactly for the empty key set
	fv.u.decls = append(fv.u.decls, fmt.Sprintf("(assert (forall ((r!m Int)) (! (and (>= (%s (select %s r!m)) 0) (= (= (%s (select %s r!m)) 0) (forall ((k!m %s)) (not (select (%s (select %s r!m)) k!m))))) :pattern ((select %s r!m)))))",
		cs.Fields[2].Accessor, h.S, cs.Fields[2].Accessor, h.S, cs.Key.Name, cs.Fields[0].Accessor, h.S, h.S))
}

// typedHeapAxiom (pragma typed_heap): every object of a fresh (initial or havocked) struct heap is a
// well-typed Go value: its bounded integer fields (also those of embedded/nested structs) are in
// the range of their types and slice lengths are non-negative. Without the pragma these facts are
// only added for values the executed code loads, not for fields mentioned only in specifications.
func (fv *FuncVerifier) typedHeapAxiom(h Term) {
	if fv.spec == nil || h.Sort == nil || h.Sort.Elem == nil || h.Sort.Elem.Kind != KStruct || fv.u.bv {
		return
	}
	if _, ok := fv.spec.Pragmas["typed_heap"]; !ok {
		return
	}
	var facts []string
	var walk func(v string, s *Sort, depth int)
	walk = func(v string, s *Sort, depth int) {
		for _, f := range s.Fields {
			fvv := "(" + f.Accessor + " " + v + ")"
			switch f.Sort.Kind {
			case KInt:
				if f.GoType != nil && isInteger(f.GoType) {
					facts = append(facts, fv.u.inRange(f.GoType, Term{fvv, f.Sort}).S)
				}
			case KSlice:
				facts = append(facts, "(>= "+slLen(Term{fvv, f.Sort}).S+" 0)")
				// elements of the slice are well-typed values too
				if et := elemType(f.GoType); et != nil && depth < 3 && f.Sort.Elem != nil {
					el := "(select " + slArr(Term{fvv, f.Sort}).S + " j!t" + fmt.Sprint(depth) + ")"
					saved := facts
					facts = nil
					switch f.Sort.Elem.Kind {
					case KInt:
						if isInteger(et) {
							facts = append(facts, fv.u.inRange(et, Term{el, f.Sort.Elem}).S)
						}
					case KStruct:
						if !f.Sort.Elem.building {
							walk(el, f.Sort.Elem, depth+1)
						}
					}
					inner := facts
					facts = saved
					if len(inner) > 0 {
						facts = append(facts, fmt.Sprintf("(forall ((j!t%d Int)) (! (and %s) :pattern (%s)))", depth, strings.Join(inner, " "), el))
					}
				}
			case KStruct:
				if depth < 3 && !f.Sort.building {
					walk(fvv, f.Sort, depth+1)
				}
			}
		}
	}
	walk("(select "+h.S+" x!t)", h.Sort.Elem, 0)
	if len(facts) == 0 {
		return
	}
	fv.u.decls = append(fv.u.decls, fmt.Sprintf("(assert (forall ((x!t Int)) (! (and %s) :pattern ((select %s x!t)))))", strings.Join(facts, " "), h.S))
	fv.u.note("pragma typed_heap: objects of fresh heaps are assumed well-typed (integer fields in range)")
}

func (fv *FuncVerifier) setHeap(st *State, ref *Sort, h Term) {
	st.heaps[heapName(ref)] = fv.def(heapName(ref), h)
}

func (fv *FuncVerifier) def(hint string, t Term) Term {
	if fv.termMode || fv.specMode > 0 || fv.quantDepth > 0 {
		return t
	}
	if strings.HasPrefix(t.S, "(conv_") {
		return t // keep conversions syntactic so that string([]byte(s)) cancels
	}
	return fv.u.define(hint, t)
}

func (fv *FuncVerifier) counter(kind string) int {
	fv.counters[kind]++
	return fv.counters[kind] - 1
}

// oblige records a proof obligation: pc ==> goal.
// uniqueName: an obligation's name is also the name of its SMT file, and the same program point can
// be reached more than once with the same label (a deferred closure executed at every return, a
// loop inside an inlined callee): the second and later occurrences get a suffix @2, @3, ... so
// that no two obligations of one function share a name (and a file).
func (fv *FuncVerifier) uniqueName(name string) string {
	if fv.nameCount == nil {
		fv.nameCount = map[string]int{}
	}
	fv.nameCount[name]++
	if n := fv.nameCount[name]; n > 1 {
		return fmt.Sprintf("%s@%d", name, n)
	}
	return name
}

func (fv *FuncVerifier) oblige(st *State, kind, label string, goal Term, p token.Pos, human string) {
	if fv.specMode > 0 || fv.termMode {
		return
	}
	if goal.S == "true" {
		return
	}
	if !fv.noSplit {
		if parts := fv.splitGoal(goal, 0); len(parts) > 1 && len(parts) <= 12 {
			fv.noSplit = true
			for k, pt := range parts {
				fv.oblige(st, kind, fmt.Sprintf("%s.%d", label, k), pt, p, human)
			}
			fv.noSplit = false
			return
		}
	}
	name := fmt.Sprintf("%s#%s", fv.name, kind)
	if label != "" {
		name += ":" + label
	}
	name = fv.uniqueName(name)
	o := &Obligation{Name: name, Kind: kind, Func: fv.name, Goal: human, Expect: "unsat"}
	if p.IsValid() {
		o.Pos = fv.pos(p)
	}
	o.SMT = fv.buildQuery(st, not(fv.skolemizeGoal(goal)))
	if fv.fd != nil && fv.spec.Kind != SKLemma && fv.entry != nil && (kind == "post" || strings.HasPrefix(kind, "safe:")) {
		ri := &replayInfo{fv: fv, kind: kind}
		if kind == "post" {
			ri.clause = fv.curClause
		}
		sig := fv.fd.fn.Type().(*types.Signature)
		names := fv.spec.allParams()
		k := 0
		add := func(v *types.Var) {
			n := fmt.Sprintf("a%d", k)
			if k < len(names) {
				n = names[k].Name
			}
			k++
			ri.inputs = append(ri.inputs, replayInput{name: n, typ: fv.subst(v.Type()), term: fv.entry.vars[v]})
		}
		if sig.Recv() != nil {
			add(sig.Recv())
		}
		for i := 0; i < sig.Params().Len(); i++ {
			add(sig.Params().At(i))
		}
		o.replay = ri
	}
	fv.obls = append(fv.obls, o)
}

// splitGoal breaks a goal into conjuncts: through (and ...), through the right-hand side
// of an implication, under a universal quantifier, and through applications of
// specification functions whose body is a conjunction. Smaller queries are more stable.
func (fv *FuncVerifier) splitGoal(goal Term, depth int) []Term {
	s := strings.TrimSpace(goal.S)
	if depth > 6 {
		return []Term{goal}
	}
	switch {
	case strings.HasPrefix(s, "(and "):
		var out []Term
		rest := s[5 : len(s)-1]
		for strings.TrimSpace(rest) != "" {
			a, r, ok := splitFirstSexpr(rest)
			if !ok {
				return []Term{goal}
			}
			out = append(out, fv.splitGoal(Term{a, sortBool}, depth+1)...)
			rest = r
		}
		return out
	case strings.HasPrefix(s, "(=> "):
		a, rest, ok := splitFirstSexpr(s[4 : len(s)-1])
		if !ok {
			return []Term{goal}
		}
		parts := fv.splitGoal(Term{strings.TrimSpace(rest), sortBool}, depth+1)
		if len(parts) <= 1 {
			return []Term{goal}
		}
		var out []Term
		for _, pt := range parts {
			out = append(out, Term{"(=> " + a + " " + pt.S + ")", sortBool})
		}
		return out
	case strings.HasPrefix(s, "(forall ("):
		binders, rest, ok := splitFirstSexpr(s[len("(forall ") : len(s)-1])
		if !ok {
			return []Term{goal}
		}
		body := strings.TrimSpace(rest)
		if strings.HasPrefix(body, "(! ") {
			return []Term{goal}
		}
		parts := fv.splitGoal(Term{body, sortBool}, depth+1)
		if len(parts) <= 1 {
			return []Term{goal}
		}
		var out []Term
		for _, pt := range parts {
			out = append(out, Term{"(forall " + binders + " " + pt.S + ")", sortBool})
		}
		return out
	case strings.HasPrefix(s, "(f_"):
		// application of a specification/pure function: unfold its body
		k := strings.IndexAny(s, " )")
		name := s[1:k]
		for _, pd := range fv.pureDefs {
			if pd == nil || len(pd.names) != 1 || pd.names[0] != name || len(pd.bodies) != 1 || pd.sorts[0].Kind != KBool {
				continue
			}
			var args []string
			rest := s[k : len(s)-1]
			for strings.TrimSpace(rest) != "" {
				a, r, ok := splitFirstSexpr(rest)
				if !ok {
					return []Term{goal}
				}
				args = append(args, a)
				rest = r
			}
			if len(args) != len(pd.formals) {
				return []Term{goal}
			}
			body := substFormals(pd.bodies[0], pd.formals, args)
			parts := fv.splitGoal(Term{body, sortBool}, depth+1)
			if len(parts) <= 1 {
				return []Term{goal}
			}
			return parts
		}
	}
	return []Term{goal}
}

// substFormals replaces whole-symbol occurrences of the formals by the arguments.
func substFormals(body string, formals, args []string) string {
	m := map[string]string{}
	for i, f := range formals {
		m[f] = args[i]
	}
	var sb strings.Builder
	i := 0
	isSym := func(c byte) bool {
		return c == '_' || c == '!' || c == '.' || c == ':' || c >= '0' && c <= '9' || c >= 'a' && c <= 'z' || c >= 'A' && c <= 'Z'
	}
	for i < len(body) {
		if body[i] == '"' {
			j := i + 1
			for j < len(body) && body[j] != '"' {
				j++
			}
			sb.WriteString(body[i : j+1])
			i = j + 1
			continue
		}
		if isSym(body[i]) {
			j := i
			for j < len(body) && isSym(body[j]) {
				j++
			}
			tok := body[i:j]
			if r, ok := m[tok]; ok {
				sb.WriteString(r)
			} else {
				sb.WriteString(tok)
			}
			i = j
			continue
		}
		sb.WriteByte(body[i])
		i++
	}
	return sb.String()
}

// skolemizeGoal: a goal (forall (x..) body) is proved for fresh constants x.. (the
// quantified names are globally unique, so they can be declared as they are). Also
// descends through a leading implication: (=> A (forall ...)).
func (fv *FuncVerifier) skolemizeGoal(goal Term) Term {
	s := goal.S
	if strings.HasPrefix(s, "(=> ") {
		// split "(=> A B)"
		a, rest, ok := splitFirstSexpr(s[4 : len(s)-1])
		if ok {
			b := strings.TrimSpace(rest)
			sk := fv.skolemizeGoal(Term{b, sortBool})
			if sk.S != b {
				return Term{"(=> " + a + " " + sk.S + ")", sortBool}
			}
		}
		return goal
	}
	if !strings.HasPrefix(s, "(forall (") {
		return goal
	}
	binders, rest, ok := splitFirstSexpr(s[len("(forall ") : len(s)-1])
	if !ok {
		return goal
	}
	body := strings.TrimSpace(rest)
	// binders: ((x S) (y T))
	inner := strings.TrimSpace(binders[1 : len(binders)-1])
	for inner != "" {
		b, r, ok := splitFirstSexpr(inner)
		if !ok {
			return goal
		}
		b = strings.TrimSpace(b[1 : len(b)-1])
		k := strings.IndexByte(b, ' ')
		if k < 0 {
			return goal
		}
		name, sortName := b[:k], strings.TrimSpace(b[k+1:])
		if srt := fv.u.byName[sortName]; srt != nil && srt.Kind == KStruct && !fv.u.declared["sk:"+name] {
			fv.u.declared["sk:"+name] = true
			t := fv.u.explodedConst(name+".sk", srt)
			fv.u.decls = append(fv.u.decls, fmt.Sprintf("(define-fun %s () %s %s)", name, sortName, t.S))
		} else {
			fv.u.declare("sk:"+name, fmt.Sprintf("(declare-const %s %s)", name, sortName))
		}
		inner = strings.TrimSpace(r)
	}
	if strings.HasPrefix(body, "(! ") {
		// drop a pattern annotation
		if b2, _, ok := splitFirstSexpr(body[3 : len(body)-1]); ok {
			body = b2
		}
	}
	return fv.skolemizeGoal(Term{body, sortBool})
}

// splitFirstSexpr splits off the first s-expression (or atom) of s.
func splitFirstSexpr(s string) (first, rest string, ok bool) {
	s = strings.TrimSpace(s)
	if s == "" {
		return "", "", false
	}
	if s[0] != '(' {
		k := strings.IndexAny(s, " )")
		if k < 0 {
			return s, "", true
		}
		return s[:k], s[k:], true
	}
	d := 0
	inStr := false
	for i := 0; i < len(s); i++ {
		c := s[i]
		if c == '"' {
			inStr = !inStr
		}
		if inStr {
			continue
		}
		if c == '(' {
			d++
		} else if c == ')' {
			d--
			if d == 0 {
				return s[:i+1], s[i+1:], true
			}
		}
	}
	return "", "", false
}

// cover records a satisfiability check (vacuity guard): pc /\ cond must be sat.
func (fv *FuncVerifier) cover(st *State, label string, cond Term, human string) *Obligation {
	name := fv.uniqueName(fmt.Sprintf("%s#cover:%s", fv.name, label))
	o := &Obligation{Name: name, Kind: "cover", Func: fv.name, Goal: human, Expect: "sat"}
	o.SMT = fv.buildQuery(st, cond)
	fv.obls = append(fv.obls, o)
	return o
}

func (fv *FuncVerifier) buildQuery(st *State, extra Term) string {
	var sb strings.Builder
	sb.WriteString("(set-option :produce-models true)\n(set-logic ALL)\n")
	sb.WriteString(preludeSMT)
	for _, d := range fv.u.decls {
		sb.WriteString(d)
		sb.WriteString("\n")
	}
	for _, a := range st.pc {
		sb.WriteString("(assert ")
		sb.WriteString(a.S)
		sb.WriteString(")\n")
	}
	sb.WriteString("(assert ")
	sb.WriteString(extra.S)
	sb.WriteString(")\n(check-sat)\n")
	return sb.String()
}

const preludeSMT = `(define-fun go_div ((a Int) (b Int)) Int (ite (>= a 0) (ite (> b 0) (div a b) (- (div a (- b)))) (ite (> b 0) (- (div (- a) b)) (div (- a) (- b)))))
(define-fun go_mod ((a Int) (b Int)) Int (- a (* b (go_div a b))))
(define-fun imin ((a Int) (b Int)) Int (ite (<= a b) a b))
(define-fun imax ((a Int) (b Int)) Int (ite (>= a b) a b))
(declare-fun err_root (Int) Int)
`

// ---------------------------------------------------------------- merging

// mergeStates merges states that diverged from a common prefix of length base.
func (fv *FuncVerifier) mergeStates(states []*State, base int) *State {
	var live []*State
	for _, s := range states {
		if s != nil {
			live = append(live, s)
		}
	}
	if len(live) == 0 {
		return nil
	}
	res := live[0]
	for _, s := range live[1:] {
		res = fv.merge2(res, s, base)
	}
	return res
}

func (fv *FuncVerifier) merge2(a, b *State, base int) *State {
	if base > len(a.pc) {
		base = len(a.pc)
	}
	if base > len(b.pc) {
		base = len(b.pc)
	}
	// shrink base to the true common prefix
	k := 0
	for k < base && a.pc[k].S == b.pc[k].S {
		k++
	}
	base = k
	for base < len(a.pc) && base < len(b.pc) && a.pc[base].S == b.pc[base].S {
		base++
	}
	ca := and(a.pc[base:]...)
	cb := and(b.pc[base:]...)
	ca = fv.def("mc", ca)
	out := &State{vars: map[types.Object]Term{}, heaps: map[string]Term{}, pc: append([]Term(nil), a.pc[:base]...)}
	out.assume(or(ca, cb))
	// specification-only variables of errgroup models start at nil when first touched
	for _, o := range fv.wgVars {
		_, ina := a.vars[o]
		_, inb := b.vars[o]
		if ina && !inb {
			b.vars[o] = Term{"0", &Sort{Name: "Int", Kind: KErr}}
		} else if inb && !ina {
			a.vars[o] = Term{"0", &Sort{Name: "Int", Kind: KErr}}
		}
	}
	for k, va := range a.vars {
		vb, ok := b.vars[k]
		if !ok {
			continue
		}
		if va.S == vb.S {
			out.vars[k] = va
		} else {
			out.vars[k] = fv.def(k.Name(), ite(ca, va, vb))
		}
	}
	hn := map[string]bool{}
	for k := range a.heaps {
		hn[k] = true
	}
	for k := range b.heaps {
		hn[k] = true
	}
	for k := range hn {
		ha, oka := a.heaps[k]
		hb, okb := b.heaps[k]
		if !oka {
			ha = fv.initHeaps[k]
		}
		if !okb {
			hb = fv.initHeaps[k]
		}
		if ha.S == hb.S {
			out.heaps[k] = ha
		} else {
			out.heaps[k] = fv.def(k, ite(ca, ha, hb))
		}
	}
	return out
}

// ---------------------------------------------------------------- statements

func (fv *FuncVerifier) execBlock(stmts []ast.Stmt, st *State) *State {
	for _, s := range stmts {
		if st == nil {
			return nil
		}
		st = fv.exec(s, st)
	}
	return st
}

func (fv *FuncVerifier) exec(s ast.Stmt, st *State) *State {
	if len(fv.spec.AssertsBefore) > 0 && fv.specMode == 0 && !fv.termMode && fv.frame().fd == fv.fd {
		fv.checkAssertsBefore(s, st, false)
		out := fv.execStmt(s, st)
		if out != nil {
			fv.checkAssertsBefore(s, out, true)
		}
		return out
	}
	return fv.execStmt(s, st)
}

func (fv *FuncVerifier) execStmt(s ast.Stmt, st *State) *State {
	switch s := s.(type) {
	case *ast.BlockStmt:
		return fv.execBlock(s.List, st)
	case *ast.ExprStmt:
		if call, ok := ast.Unparen(s.X).(*ast.CallExpr); ok {
			fv.evalCall(call, st, true)
			if st.pc != nil && len(st.pc) > 0 && st.pc[len(st.pc)-1].S == "false" {
				return nil
			}
			return st
		}
		reject("expression statement %T at %s", s.X, fv.pos(s.Pos()))
	case *ast.AssignStmt:
		return fv.execAssign(s, st)
	case *ast.IncDecStmt:
		t := fv.typeOf(s.X)
		x := fv.eval(s.X, st)
		one := fv.intConst(1, x.Sort)
		op := token.ADD
		if s.Tok == token.DEC {
			op = token.SUB
		}
		v := fv.arith(op, x, one, t, st, s.Pos())
		fv.assign(s.X, v, st)
		return st
	case *ast.DeclStmt:
		gd := s.Decl.(*ast.GenDecl)
		if gd.Tok != token.VAR {
			return st
		}
		for _, sp := range gd.Specs {
			vs := sp.(*ast.ValueSpec)
			if len(vs.Values) == 1 && len(vs.Names) > 1 {
				vals := fv.evalMulti(vs.Values[0], st)
				for i, n := range vs.Names {
					fv.bind(n, vals[i], st)
				}
				continue
			}
			for i, n := range vs.Names {
				obj := fv.info().Defs[n]
				if obj == nil {
					continue
				}
				if i < len(vs.Values) {
					v := fv.evalTo(vs.Values[i], obj.Type(), st)
					fv.bind(n, v, st)
				} else {
					srt := fv.sortOf(obj.Type())
					if srt == nil {
						continue // unmodelled local: reads will be rejected
					}
					st.vars[obj] = fv.u.zero(srt)
				}
			}
		}
		return st
	case *ast.IfStmt:
		if s.Init != nil {
			st = fv.exec(s.Init, st)
			if st == nil {
				return nil
			}
		}
		return fv.execIf(s, st)
	case *ast.ReturnStmt:
		fv.execReturn(s, st)
		return nil
	case *ast.ForStmt:
		return fv.execFor(s, st)
	case *ast.RangeStmt:
		return fv.execRange(s, st)
	case *ast.BranchStmt:
		if s.Label != nil {
			// find labelled loop frame
			fr := fv.frame()
			for i := len(fr.loops) - 1; i >= 0; i-- {
				if fr.loops[i].label == s.Label.Name {
					if s.Tok == token.BREAK {
						fr.loops[i].breaks = append(fr.loops[i].breaks, st)
						return nil
					} else if s.Tok == token.CONTINUE && i == len(fr.loops)-1 {
						fr.loops[i].continues = append(fr.loops[i].continues, st)
						return nil
					}
				}
			}
			reject("labelled %s at %s", s.Tok, fv.pos(s.Pos()))
		}
		fr := fv.frame()
		if len(fr.loops) == 0 {
			reject("%s outside loop at %s", s.Tok, fv.pos(s.Pos()))
		}
		lf := fr.loops[len(fr.loops)-1]
		switch s.Tok {
		case token.BREAK:
			lf.breaks = append(lf.breaks, st)
		case token.CONTINUE:
			lf.continues = append(lf.continues, st)
		default:
			reject("%s at %s", s.Tok, fv.pos(s.Pos()))
		}
		return nil
	case *ast.SwitchStmt:
		return fv.execSwitch(s, st)
	case *ast.DeferStmt:
		fv.execDefer(s, st)
		return st
	case *ast.LabeledStmt:
		switch inner := s.Stmt.(type) {
		case *ast.ForStmt:
			return fv.execForLabel(inner, st, s.Label.Name)
		case *ast.RangeStmt:
			return fv.execRangeLabel(inner, st, s.Label.Name)
		}
		return fv.exec(s.Stmt, st)
	case *ast.EmptyStmt:
		return st
	case *ast.GoStmt:
		reject("go statement at %s", fv.pos(s.Pos()))
	case *ast.SelectStmt:
		return fv.execSelect(s, st)
	case *ast.SendStmt:
		reject("channel send at %s", fv.pos(s.Pos()))
	}
	reject("statement %T at %s", s, fv.pos(s.Pos()))
	return nil
}

// ---------------------------------------------------------------- channel receives

// recvObj is the specification-only counter of values received from channels since the verified
// function was entered (__recvs() in contracts); the i-th received value is __recvval[T](i).
func (fv *FuncVerifier) recvObj() types.Object {
	if fv.recvVar == nil {
		fv.recvVar = types.NewVar(token.NoPos, nil, "recvs", types.Typ[types.Int])
	}
	return fv.recvVar
}

func (fv *FuncVerifier) recvCount(st *State) Term {
	if v, ok := st.vars[fv.recvObj()]; ok {
		return v
	}
	return intT(0)
}

// receive models `<-ch`: the value is the next element of an arbitrary sequence of received values
// (uninterpreted in its position), and the receive counter advances. Which goroutine sent it, and
// whether the channel would block, are outside the model: every receive that is executed succeeds.
func (fv *FuncVerifier) receive(chT types.Type, st *State) Term {
	ct, ok := fv.subst(chT).Underlying().(*types.Chan)
	if !ok {
		reject("receive from a non-channel")
	}
	idx := fv.recvCount(st)
	st.vars[fv.recvObj()] = fv.def("recvs", mk(sortInt, "(+ %s 1)", idx.S))
	fv.u.note("channel receives: each executed receive yields the next element of an arbitrary sequence (__recvval) and advances __recvs(); blocking, closing and the sender side are not modelled")
	es := fv.sortOf(ct.Elem())
	if es == nil {
		return Term{}
	}
	v := fv.recvVal(es, idx)
	fv.assumeTyped(st, v, ct.Elem())
	return v
}

func (fv *FuncVerifier) recvVal(es *Sort, idx Term) Term {
	n := "chan_recv_" + sanitize(es.Name)
	fv.u.declare("fun:"+n, fmt.Sprintf("(declare-fun %s (Int) %s)", n, es.Name))
	return app(es, n, idx)
}

// execSelect: one of the communication clauses is chosen arbitrarily (a default clause may always
// be chosen: the model does not know whether a channel is ready). Only receive clauses are modelled.
func (fv *FuncVerifier) execSelect(s *ast.SelectStmt, st *State) *State {
	base := len(st.pc)
	choice := fv.u.freshConst("sel", sortInt)
	lf := &loopFrame{}
	fr := fv.frame()
	fr.loops = append(fr.loops, lf) // break leaves the select
	var outs []*State
	for i, cc := range s.Body.List {
		cl := cc.(*ast.CommClause)
		a := st.clone()
		a.assume(eq(choice, intT(int64(i))))
		switch c := cl.Comm.(type) {
		case nil:
		case *ast.ExprStmt:
			u, ok := ast.Unparen(c.X).(*ast.UnaryExpr)
			if !ok || u.Op != token.ARROW {
				reject("select clause at %s", fv.pos(c.Pos()))
			}
			fv.receive(fv.typeOf(u.X), a)
		case *ast.AssignStmt:
			u, ok := ast.Unparen(c.Rhs[0]).(*ast.UnaryExpr)
			if !ok || u.Op != token.ARROW || len(c.Lhs) != 1 {
				reject("select clause at %s (only `x := <-ch` is modelled)", fv.pos(c.Pos()))
			}
			v := fv.receive(fv.typeOf(u.X), a)
			if id, ok := c.Lhs[0].(*ast.Ident); ok && c.Tok == token.DEFINE {
				fv.bind(id, v, a)
			} else {
				fv.assign(c.Lhs[0], v, a)
			}
		default:
			reject("channel send in select at %s", fv.pos(cl.Pos()))
		}
		if cl.Comm != nil && len(fv.spec.AssertsBefore) > 0 && fv.specMode == 0 && !fv.termMode && fv.frame().fd == fv.fd {
			fv.checkAssertsBefore(cl.Comm, a, true) // clauses anchored after the communication statement
		}
		outs = append(outs, fv.execBlock(cl.Body, a))
	}
	fr.loops = fr.loops[:len(fr.loops)-1]
	if len(lf.continues) > 0 {
		if len(fr.loops) == 0 {
			reject("continue outside loop")
		}
		outer := fr.loops[len(fr.loops)-1]
		outer.continues = append(outer.continues, lf.continues...)
	}
	outs = append(outs, lf.breaks...)
	return fv.mergeStates(outs, base)
}

func (fv *FuncVerifier) bind(id *ast.Ident, v Term, st *State) {
	if id.Name == "_" {
		return
	}
	obj := fv.info().Defs[id]
	if obj == nil {
		obj = fv.info().Uses[id]
	}
	if obj == nil {
		reject("unresolved identifier %s", id.Name)
	}
	if v.Sort == nil {
		// an unmodelled value (e.g. a result the callee's contract gives no model for) bound to a
		// variable whose own type has a model: the variable holds an arbitrary well-typed value
		if vr, ok := obj.(*types.Var); ok {
			if srt := fv.sortOf(vr.Type()); srt != nil {
				t := fv.u.freshConst(id.Name, srt)
				fv.assumeTyped(st, t, vr.Type())
				st.vars[obj] = t
				return
			}
		}
		delete(st.vars, obj)
		return
	}
	st.vars[obj] = fv.def(id.Name, v)
}

func (fv *FuncVerifier) execAssign(s *ast.AssignStmt, st *State) *State {
	switch s.Tok {
	case token.ASSIGN, token.DEFINE:
		if len(s.Lhs) > 1 && len(s.Rhs) == 1 {
			vals := fv.evalMulti(s.Rhs[0], st)
			if len(vals) != len(s.Lhs) {
				reject("assignment arity at %s", fv.pos(s.Pos()))
			}
			for i, l := range s.Lhs {
				fv.assignOrDefine(l, vals[i], st, s.Tok)
			}
			return st
		}
		// closures: x := func(...) {...}
		if len(s.Lhs) == 1 {
			if lit, ok := ast.Unparen(s.Rhs[0]).(*ast.FuncLit); ok {
				if id, ok := s.Lhs[0].(*ast.Ident); ok {
					obj := fv.info().Defs[id]
					if obj == nil {
						obj = fv.info().Uses[id]
					}
					fv.closures[obj] = &closure{lit: lit, fr: fv.frame()}
					return st
				}
			}
		}
		// f := lo.Ternary(cond, x.m1, x.m2): a choice between two method values, resolved at the call
		if len(s.Lhs) == 1 {
			if fc := fv.asFuncChoice(s.Rhs[0], st); fc != nil {
				if id, ok := s.Lhs[0].(*ast.Ident); ok {
					obj := fv.info().Defs[id]
					if obj == nil {
						obj = fv.info().Uses[id]
					}
					if fv.funcChoices == nil {
						fv.funcChoices = map[types.Object]*funcChoice{}
					}
					fv.funcChoices[obj] = fc
					return st
				}
			}
		}
		vals := make([]Term, len(s.Rhs))
		for i, r := range s.Rhs {
			vals[i] = fv.evalTo(r, fv.lhsType(s.Lhs[i]), st)
		}
		for i, l := range s.Lhs {
			fv.assignOrDefine(l, vals[i], st, s.Tok)
		}
		return st
	default:
		// op-assign
		var op token.Token
		switch s.Tok {
		case token.ADD_ASSIGN:
			op = token.ADD
		case token.SUB_ASSIGN:
			op = token.SUB
		case token.MUL_ASSIGN:
			op = token.MUL
		case token.QUO_ASSIGN:
			op = token.QUO
		case token.REM_ASSIGN:
			op = token.REM
		case token.AND_ASSIGN:
			op = token.AND
		case token.OR_ASSIGN:
			op = token.OR
		case token.XOR_ASSIGN:
			op = token.XOR
		case token.SHL_ASSIGN:
			op = token.SHL
		case token.SHR_ASSIGN:
			op = token.SHR
		case token.AND_NOT_ASSIGN:
			op = token.AND_NOT
		default:
			reject("assignment operator %s", s.Tok)
		}
		t := fv.typeOf(s.Lhs[0])
		x := fv.eval(s.Lhs[0], st)
		var v Term
		if op == token.SHL || op == token.SHR {
			v = fv.shift(op, x, s.Rhs[0], t, st, s.Pos())
		} else {
			y := fv.evalTo(s.Rhs[0], t, st)
			v = fv.binop(op, x, y, t, st, s.Pos())
		}
		fv.assign(s.Lhs[0], v, st)
		return st
	}
}

func (fv *FuncVerifier) lhsType(l ast.Expr) types.Type {
	if id, ok := l.(*ast.Ident); ok {
		if id.Name == "_" {
			return nil
		}
		if obj := fv.info().Defs[id]; obj != nil {
			return fv.subst(obj.Type())
		}
	}
	return fv.typeOf(l)
}

func (fv *FuncVerifier) assignOrDefine(l ast.Expr, v Term, st *State, tok token.Token) {
	if id, ok := l.(*ast.Ident); ok {
		if id.Name == "_" {
			return
		}
		if tok == token.DEFINE {
			fv.bind(id, v, st)
			return
		}
	}
	fv.assign(l, v, st)
}

func (fv *FuncVerifier) execIf(s *ast.IfStmt, st *State) *State {
	base := len(st.pc)
	c := fv.evalCond(s.Cond, st)
	c = fv.def("c", c)
	a := st.clone()
	a.assume(c)
	a = fv.execBlock(s.Body.List, a)
	b := st.clone()
	b.assume(not(c))
	if s.Else != nil {
		b = fv.exec(s.Else, b)
	}
	return fv.mergeStates([]*State{a, b}, base)
}

func (fv *FuncVerifier) execSwitch(s *ast.SwitchStmt, st *State) *State {
	if s.Init != nil {
		st = fv.exec(s.Init, st)
	}
	base := len(st.pc)
	var tag Term
	var tagT types.Type
	if s.Tag != nil {
		tag = fv.eval(s.Tag, st)
		tagT = fv.typeOf(s.Tag)
	}
	var outs []*State
	rest := st
	var deflt *ast.CaseClause
	lf := &loopFrame{}
	fr := fv.frame()
	// 'break' inside switch leaves the switch: treat as a pseudo loop frame
	fr.loops = append(fr.loops, lf)
	for _, cc := range s.Body.List {
		cl := cc.(*ast.CaseClause)
		if cl.List == nil {
			deflt = cl
			continue
		}
		var conds []Term
		for _, e := range cl.List {
			if s.Tag != nil {
				v := fv.evalTo(e, tagT, rest)
				conds = append(conds, eq(tag, v))
			} else {
				conds = append(conds, fv.evalCond(e, rest))
			}
		}
		c := fv.def("sw", or(conds...))
		a := rest.clone()
		a.assume(c)
		for _, bs := range cl.Body {
			if br, ok := bs.(*ast.BranchStmt); ok && br.Tok == token.FALLTHROUGH {
				reject("fallthrough at %s", fv.pos(br.Pos()))
			}
		}
		outs = append(outs, fv.execBlock(cl.Body, a))
		rest = rest.clone()
		rest.assume(not(c))
	}
	if deflt != nil {
		outs = append(outs, fv.execBlock(deflt.Body, rest))
	} else {
		outs = append(outs, rest)
	}
	fr.loops = fr.loops[:len(fr.loops)-1]
	if len(lf.continues) > 0 {
		// continue inside switch belongs to the enclosing loop
		if len(fr.loops) == 0 {
			reject("continue outside loop")
		}
		outer := fr.loops[len(fr.loops)-1]
		outer.continues = append(outer.continues, lf.continues...)
	}
	outs = append(outs, lf.breaks...)
	return fv.mergeStates(outs, base)
}

// ---------------------------------------------------------------- returns

func (fv *FuncVerifier) execReturn(s *ast.ReturnStmt, st *State) {
	fr := fv.frame()
	if _, ok := fv.spec.Pragmas["returned_closure"]; ok && fr.top && len(s.Results) == 1 && fv.specMode == 0 {
		if lit, isLit := ast.Unparen(s.Results[0]).(*ast.FuncLit); isLit {
			fv.runReturnedClosure(s, lit, st)
		}
	}
	if len(s.Results) > 0 {
		var vals []Term
		if len(s.Results) == 1 && len(fr.results) > 1 {
			vals = fv.evalMulti(s.Results[0], st)
		} else {
			for i, r := range s.Results {
				if _, isLit := ast.Unparen(r).(*ast.FuncLit); isLit {
					vals = append(vals, Term{}) // a function value: not modelled (see pragma returned_closure)
					continue
				}
				vals = append(vals, fv.evalTo(r, fr.results[i].Type(), st))
			}
		}
		for i, obj := range fr.results {
			if vals[i].Sort == nil {
				delete(st.vars, obj)
				continue
			}
			st.vars[obj] = fv.def(obj.Name(), vals[i])
		}
	}
	fv.finishReturn(st, s.Pos())
}

func (fv *FuncVerifier) finishReturn(st *State, p token.Pos) {
	fr := fv.frame()
	for i := len(fr.defers) - 1; i >= 0; i-- {
		fr.defers[i](st)
	}
	if !fr.top {
		fr.rets = append(fr.rets, st)
		return
	}
	fv.checkPost(st, p)
}

func (fv *FuncVerifier) execDefer(s *ast.DeferStmt, st *State) {
	fr := fv.frame()
	call := s.Call
	if lit, ok := ast.Unparen(call.Fun).(*ast.FuncLit); ok && len(call.Args) == 0 {
		fr.defers = append(fr.defers, func(st *State) {
			fv.runClosureBody(lit, fr, nil, st)
		})
		return
	}
	// deferred ordinary call: arguments evaluated now
	if fv.isIgnoredCall(call) {
		return
	}
	fr.defers = append(fr.defers, func(st *State) {
		fv.evalCall(call, st, true)
	})
}

// runClosureBody executes a function literal's body in frame fr's scope.
func (fv *FuncVerifier) runClosureBody(lit *ast.FuncLit, fr *frame, args []Term, st *State) []Term {
	sig := fr.info.TypeOf(lit).(*types.Signature)
	nf := &frame{fd: fr.fd, info: fr.info, pkg: fr.pkg, tsubst: fr.tsubst}
	// params
	k := 0
	if lit.Type.Params != nil {
		for _, f := range lit.Type.Params.List {
			for _, n := range f.Names {
				if obj := fr.info.Defs[n]; obj != nil && k < len(args) {
					st.vars[obj] = args[k]
				}
				k++
			}
		}
	}
	// results
	if lit.Type.Results != nil {
		idx := 0
		for _, f := range lit.Type.Results.List {
			if len(f.Names) == 0 {
				v := types.NewVar(token.NoPos, fr.pkg.Types, fmt.Sprintf("cret%d", idx), sig.Results().At(idx).Type())
				nf.results = append(nf.results, v)
				idx++
				continue
			}
			for _, n := range f.Names {
				obj := fr.info.Defs[n]
				nf.results = append(nf.results, obj)
				if srt := fv.sortOf(obj.Type()); srt != nil {
					st.vars[obj] = fv.u.zero(srt)
				}
				idx++
			}
		}
	}
	base := len(st.pc)
	fv.frames = append(fv.frames, nf)
	if fv.rfPending != nil {
		fv.rfPending.iterFrame = nf
		fv.rfPending = nil
	}
	// loops inside closures keep their ordinal from the enclosing declaration
	end := fv.execBlock(lit.Body.List, st.clone())
	if end != nil {
		fv.finishReturn(end, lit.End())
	}
	fv.frames = fv.frames[:len(fv.frames)-1]
	m := fv.mergeStates(nf.rets, base)
	if m == nil {
		st.assume(boolT(false))
		return nil
	}
	*st = *m
	var out []Term
	for _, r := range nf.results {
		out = append(out, st.vars[r])
	}
	return out
}

// ---------------------------------------------------------------- loops

func (fv *FuncVerifier) execFor(s *ast.ForStmt, st *State) *State { return fv.execForLabel(s, st, "") }

func (fv *FuncVerifier) loopSpec(s ast.Stmt) (*LoopSpec, int) {
	n, ok := fv.loopOrdinals[s]
	if !ok {
		return nil, -1
	}
	if fv.frame().fd != fv.fd {
		return nil, n // inlined function: uses that function's own loop specs
	}
	return fv.spec.Loops[n], n
}

func (fv *FuncVerifier) inlineLoopSpec(s ast.Stmt) (*LoopSpec, *FuncSpec, int) {
	fr := fv.frame()
	if fr.fd == fv.fd {
		ls, n := fv.loopSpec(s)
		return ls, fv.spec, n
	}
	// loop inside an inlined function: ordinal within that declaration
	loops := collectLoops(fr.fd.decl.Body)
	for i, l := range loops {
		if l == s {
			sp := fv.prog.specs[fr.fd.key]
			if sp != nil {
				return sp.Loops[i], sp, i
			}
			return nil, nil, i
		}
	}
	return nil, nil, -1
}

// modset computes the variables assigned in a statement (syntactically) and
// whether heaps may be written.
type modSet struct {
	vars  map[types.Object]bool
	heaps bool
	// fields: local struct variables that are only ever assigned field by field (x.f = ...):
	// the loop havocs those fields and keeps the others
	fields map[types.Object]map[string]bool
	whole  map[types.Object]bool
}

func (fv *FuncVerifier) modset(n ast.Node) *modSet {
	ms := &modSet{vars: map[types.Object]bool{}, fields: map[types.Object]map[string]bool{}, whole: map[types.Object]bool{}}
	info := fv.info()
	var mark func(e ast.Expr)
	mark = func(e ast.Expr) {
		switch e := ast.Unparen(e).(type) {
		case *ast.Ident:
			if obj := info.Uses[e]; obj != nil {
				ms.vars[obj] = true
				ms.whole[obj] = true
			} else if obj := info.Defs[e]; obj != nil {
				ms.vars[obj] = true
				ms.whole[obj] = true
			}
		case *ast.SelectorExpr:
			if t := info.TypeOf(e.X); t != nil {
				if _, ok := t.Underlying().(*types.Pointer); ok {
					ms.heaps = true
					return
				}
				// x.f = ... on a local struct value: only field f changes
				if id, ok := ast.Unparen(e.X).(*ast.Ident); ok {
					if _, isStruct := t.Underlying().(*types.Struct); isStruct {
						if obj := info.Uses[id]; obj != nil {
							ms.vars[obj] = true
							if ms.fields[obj] == nil {
								ms.fields[obj] = map[string]bool{}
							}
							ms.fields[obj][e.Sel.Name] = true
							return
						}
					}
				}
			}
			mark(e.X)
		case *ast.IndexExpr:
			if t := info.TypeOf(e.X); t != nil {
				switch t.Underlying().(type) {
				case *types.Map, *types.Pointer:
					ms.heaps = true
					return
				}
			}
			mark(e.X)
		case *ast.StarExpr:
			ms.heaps = true
		}
	}
	ast.Inspect(n, func(n ast.Node) bool {
		switch n := n.(type) {
		case *ast.AssignStmt:
			for _, l := range n.Lhs {
				mark(l)
			}
		case *ast.IncDecStmt:
			mark(n.X)
		case *ast.UnaryExpr:
			if n.Op == token.ARROW {
				ms.vars[fv.recvObj()] = true
				ms.whole[fv.recvObj()] = true
			}
		case *ast.RangeStmt:
			if n.Key != nil {
				mark(n.Key)
			}
			if n.Value != nil {
				mark(n.Value)
			}
		case *ast.CallExpr:
			// calls may write heaps (decided by contracts); be conservative
			if !fv.callIsHeapPure(n) {
				ms.heaps = true
			}
			if f, ok := fv.calleeOf(n).(*types.Func); ok && funcKey(f) == "golang.org/x/sync/errgroup.Group.Go" {
				if se, ok := ast.Unparen(n.Fun).(*ast.SelectorExpr); ok {
					if id, ok := ast.Unparen(se.X).(*ast.Ident); ok && info.Uses[id] != nil {
						o := fv.wgObj(info.Uses[id])
						ms.vars[o] = true
						ms.whole[o] = true
					}
				}
			}
		}
		return true
	})
	return ms
}

type loopCfg struct {
	loop      ast.Stmt
	body      *ast.BlockStmt
	ls        *LoopSpec
	ord       int
	label     string
	extraMods []types.Object
	idxVar    types.Object
	rfo       *rangeFuncOverride  // set when this loop drives a range-over-func statement of the caller
	sync      func(*State)        // establish derived variables before invariants are evaluated
	autoInv   func(*State) Term   // engine-supplied invariant
	cond      func(*State) Term   // loop guard
	condSetup func(*State) Term   // alternative guard that may bind per-iteration ghost values
	exitCond  func(*State) Term   // condition at exit (default: not guard)
	pre       func(*State)        // start of each iteration
	post      func(*State) *State // end of each iteration
}

func (fv *FuncVerifier) execForLabel(s *ast.ForStmt, st *State, label string) *State {
	if s.Init != nil {
		st = fv.exec(s.Init, st)
		if st == nil {
			return nil
		}
	}
	ls, _, n := fv.inlineLoopSpec(s)
	return fv.cutLoop(&loopCfg{loop: s, body: s.Body, ls: ls, ord: n, label: label,
		cond: func(st *State) Term {
			if s.Cond == nil {
				return boolT(true)
			}
			return fv.evalCond(s.Cond, st)
		},
		post: func(st *State) *State {
			if s.Post != nil {
				return fv.exec(s.Post, st)
			}
			return st
		}}, st)
}

// cutLoop implements the invariant cut-point rule.
func (fv *FuncVerifier) cutLoop(cfg *loopCfg, st *State) *State {
	fr := fv.frame()
	ls, ord, loop := cfg.ls, cfg.ord, cfg.loop
	pos := cfg.body.Lbrace
	if cfg.rfo != nil {
		saved := fv.clauseCtx
		fv.clauseCtx = &clauseCtx{fr: cfg.rfo.callerFrame, pos: cfg.rfo.pos}
		defer func() { fv.clauseCtx = saved }()
	}
	if cfg.idxVar != nil {
		fv.riStack = append(fv.riStack, cfg.idxVar)
		defer func() { fv.riStack = fv.riStack[:len(fv.riStack)-1] }()
	}
	invs := func(st *State, kind string) {
		if cfg.sync != nil {
			cfg.sync(st)
		}
		if cfg.autoInv != nil {
			fv.oblige(st, kind, fmt.Sprintf("L%d:auto", ord), cfg.autoInv(st), loop.Pos(), "engine range invariant")
		}
		if ls == nil {
			return
		}
		for i, c := range ls.Invariants {
			fv.oblige(st, kind, fmt.Sprintf("L%d:%d", ord, i), fv.evalClauseHere(c, st, pos), loop.Pos(), c.Text)
		}
	}
	assumeInvs := func(st *State) {
		if cfg.sync != nil {
			cfg.sync(st)
		}
		if cfg.autoInv != nil {
			st.assume(cfg.autoInv(st))
		}
		if ls == nil {
			return
		}
		for _, c := range ls.Invariants {
			st.assume(fv.evalClauseHere(c, st, pos))
		}
	}
	// 1. invariants hold on entry
	invs(st, "inv-init")
	// 2. havoc what the loop modifies
	ms := fv.modset(loop)
	for _, o := range cfg.extraMods {
		ms.vars[o] = true
		ms.whole[o] = true
	}
	if cfg.rfo != nil && cfg.rfo.heaps {
		ms.heaps = true
	}
	head := st.clone()
	var names []string
	objs := map[string]types.Object{}
	for obj := range ms.vars {
		if _, ok := head.vars[obj]; ok {
			k := obj.Name() + fmt.Sprint(obj.Pos())
			names = append(names, k)
			objs[k] = obj
		}
	}
	sort.Strings(names)
	for _, nm := range names {
		obj := objs[nm]
		old := head.vars[obj]
		if fs := ms.fields[obj]; len(fs) > 0 && !ms.whole[obj] && old.Sort != nil && old.Sort.Kind == KStruct {
			// only some fields of this local struct are assigned in the loop: the others keep their value
			cur := old
			ok := true
			var fnames []string
			for f := range fs {
				fnames = append(fnames, f)
			}
			sort.Strings(fnames)
			for _, f := range fnames {
				fi := old.Sort.field(f)
				if fi == nil {
					ok = false
					break
				}
				cur = fv.u.setField(cur, f, fv.u.freshConst(obj.Name()+"_"+f, fi.Sort))
			}
			if ok {
				nv := fv.def(obj.Name(), cur)
				head.vars[obj] = nv
				fv.assumeTyped(head, nv, obj.Type())
				continue
			}
		}
		nv := fv.u.freshConst(obj.Name(), old.Sort)
		head.vars[obj] = nv
		fv.assumeTyped(head, nv, obj.Type())
	}
	var touched []string
	var modRefs footprint
	if ms.heaps {
		touched = fv.discoverTouched(cfg, head)
		modRefs = fv.havocTouched(head, st, touched, cfg, pos)
	}
	headHeaps := map[string]Term{}
	for k, v := range head.heaps {
		headHeaps[k] = v
	}
	assumeInvs(head)
	base := len(head.pc)
	// 3. body preserves invariants
	lf := &loopFrame{label: cfg.label}
	it := head.clone()
	var c Term
	if cfg.condSetup != nil {
		c = cfg.condSetup(it)
	} else {
		c = fv.def("lc", cfg.cond(it))
	}
	it.assume(c)
	var v0 Term
	if ls != nil && ls.Decreases != nil {
		v0 = fv.def("variant", fv.evalClauseHere(ls.Decreases, it, pos))
	}
	if cfg.pre != nil {
		cfg.pre(it)
	}
	fr.loops = append(fr.loops, lf)
	end := fv.execBlock(cfg.body.List, it)
	fr.loops = fr.loops[:len(fr.loops)-1]
	cont := fv.mergeStates(append([]*State{end}, lf.continues...), base)
	if cont != nil && cfg.post != nil {
		cont = cfg.post(cont)
	}
	if cont != nil {
		fv.checkLoopFrame(cont, headHeaps, touched, modRefs, cfg)
		invs(cont, "inv-keep")
		if ls != nil && ls.Decreases != nil {
			v1 := fv.evalClauseHere(ls.Decreases, cont, pos)
			fv.oblige(cont, "dec", fmt.Sprintf("L%d", ord), and(mk(sortBool, "(>= %s 0)", v0.S), mk(sortBool, "(< %s %s)", v1.S, v0.S)), loop.Pos(), "variant decreases: "+ls.Decreases.Text)
		}
	}
	// 4. continue after the loop
	exit := head.clone()
	if cfg.exitCond != nil {
		exit.assume(cfg.exitCond(exit))
	} else {
		exit.assume(not(fv.def("lc", cfg.cond(exit))))
	}
	return fv.mergeStates(append([]*State{exit}, lf.breaks...), base)
}

// discoverTouched runs the loop body once on a scratch state to find which heaps
// an iteration can write; obligations and counters of the dry run are discarded.
func (fv *FuncVerifier) discoverTouched(cfg *loopCfg, head *State) []string {
	saveObls, saveRet := len(fv.obls), fv.retOrdinal
	saveCnt := map[string]int{}
	for k, v := range fv.counters {
		saveCnt[k] = v
	}
	fr := fv.frame()
	saveRets, saveDefers := len(fr.rets), len(fr.defers)
	saveNotes := map[string]bool{}
	for k := range fv.u.notes {
		saveNotes[k] = true
	}
	defer func() {
		fv.u.notes = saveNotes
		fv.obls = fv.obls[:saveObls]
		fv.retOrdinal = saveRet
		fv.counters = saveCnt
		fr.rets = fr.rets[:saveRets]
		fr.defers = fr.defers[:saveDefers]
	}()
	dry := head.clone()
	fv.havocAllHeaps(dry)
	baseHeaps := map[string]Term{}
	for k, v := range dry.heaps {
		baseHeaps[k] = v
	}
	it := dry.clone()
	if cfg.condSetup != nil {
		it.assume(cfg.condSetup(it))
	} else {
		it.assume(cfg.cond(it))
	}
	if cfg.pre != nil {
		cfg.pre(it)
	}
	lf := &loopFrame{label: cfg.label}
	fr.loops = append(fr.loops, lf)
	end := fv.execBlock(cfg.body.List, it)
	fr.loops = fr.loops[:len(fr.loops)-1]
	states := append([]*State{end}, lf.continues...)
	set := map[string]bool{}
	for _, s := range states {
		if s == nil {
			continue
		}
		if cfg.post != nil {
			s = cfg.post(s.clone())
			if s == nil {
				continue
			}
		}
		for k, v := range s.heaps {
			b, ok := baseHeaps[k]
			if !ok {
				b, ok = fv.initHeaps[k]
			}
			if !ok || b.S != v.S {
				set[k] = true
			}
		}
	}
	return keys(set)
}

// havocTouched replaces the heaps an iteration can write by fresh ones at the loop
// head. With a `loop N modifies` clause objects that existed before the loop and are
// not listed keep their value (that frame is re-checked at the end of each iteration).
func (fv *FuncVerifier) havocTouched(head, pre *State, touched []string, cfg *loopCfg, pos token.Pos) footprint {
	fp := footprint{}
	hasMod := cfg.ls != nil && cfg.ls.HasMod
	if hasMod {
		for _, c := range cfg.ls.Modifies {
			fp.add(fv.evalLoopModTarget(c, pre, pos))
		}
	}
	for _, k := range touched {
		if strings.HasPrefix(k, "alloc:") {
			cur, ok := pre.heaps[k]
			if !ok {
				cur, ok = fv.initHeaps[k]
			}
			na := fv.u.freshConst("alloc", &Sort{Name: "(Array Int Bool)", Kind: KSMTArray, Elem: sortBool})
			if ok {
				head.assume(mk(sortBool, "(forall ((x!f Int)) (! (=> (select %s x!f) (select %s x!f)) :pattern ((select %s x!f))))", cur.S, na.S, na.S))
			}
			head.heaps[k] = na
			continue
		}
		ref := fv.heapSorts[k]
		if ref == nil {
			reject("internal: unknown heap %s", k)
		}
		cur := fv.heap(pre, ref)
		nh := fv.u.freshConst(k, cur.Sort)
		fv.nilMapAxiom(k, nh)
		if hasMod {
			fv.assumeFrame(head, fp[k], ref, cur, nh, fv.allocSet(pre, ref).S)
		} else {
			fv.u.note("loop writes heap %s without a `loop modifies` clause: that heap is fully havocked at the loop head", k)
		}
		head.heaps[k] = nh
	}
	return fp
}

func (fv *FuncVerifier) checkLoopFrame(cont *State, headHeaps map[string]Term, touched []string, fp footprint, cfg *loopCfg) {
	if cfg.ls == nil || !cfg.ls.HasMod {
		return
	}
	for _, k := range touched {
		if strings.HasPrefix(k, "alloc:") {
			continue
		}
		hh, ok := headHeaps[k]
		cur, ok2 := cont.heaps[k]
		if !ok || !ok2 || hh.S == cur.S {
			continue
		}
		ref := fv.heapSorts[k]
		alloc := ""
		if al, ok := headHeaps["alloc:"+k]; ok {
			alloc = al.S
		} else if al, ok := fv.initHeaps["alloc:"+k]; ok {
			alloc = al.S
		}
		goal := fv.frameGoal(fp[k], ref, hh, cur, alloc)
		fv.oblige(cont, "inv-keep", fmt.Sprintf("L%d:frame:%s", cfg.ord, k), goal, cfg.loop.Pos(), "objects/fields not listed in `loop modifies` are unchanged by an iteration")
	}
}

func (fv *FuncVerifier) havocAllHeaps(st *State) {
	names := map[string]bool{}
	for k := range st.heaps {
		names[k] = true
	}
	for k := range fv.initHeaps {
		names[k] = true
	}
	var sorted []string
	for k := range names {
		sorted = append(sorted, k)
	}
	sort.Strings(sorted)
	for _, k := range sorted {
		if strings.HasPrefix(k, "alloc:") {
			continue
		}
		cur, ok := st.heaps[k]
		if !ok {
			cur = fv.initHeaps[k]
		}
		st.heaps[k] = fv.u.freshConst(k, cur.Sort)
		fv.nilMapAxiom(k, st.heaps[k])
	}
	fv.u.note("heap-writing loop or modifies *: all heaps havocked (invariants/ensures must restate needed heap facts)")
}

func (fv *FuncVerifier) execRange(s *ast.RangeStmt, st *State) *State {
	return fv.execRangeLabel(s, st, "")
}

func (fv *FuncVerifier) execRangeLabel(s *ast.RangeStmt, st *State, label string) *State {
	ls, _, ord := fv.inlineLoopSpec(s)
	xt := fv.typeOf(s.X)
	if fv.autoFrames > 0 && ls == nil {
		if _, isSl := xt.Underlying().(*types.Slice); !isSl {
			reject("call to %s without contract (range over %s at %s)", funcKey(fv.frame().fd.fn), xt, fv.pos(s.Pos()))
		}
	}
	if _, isFn := xt.Underlying().(*types.Signature); isFn {
		return fv.execRangeFunc(s, st, label, ls, ord)
	}
	var rfo *rangeFuncOverride
	if o := fv.rfOverride; o != nil && !o.used && fv.frame() == o.iterFrame && callsObj(fv.info(), s.Body, o.yield) {
		// the loop of an iterator function that drives a `range f()` statement of the caller:
		// it is cut with the caller's loop specification, evaluated in the caller's scope
		o.used = true
		rfo = o
		ls, ord = o.ls, o.ord
	}
	info := fv.info()
	keyObj := func(e ast.Expr) types.Object {
		if e == nil {
			return nil
		}
		id, ok := e.(*ast.Ident)
		if !ok {
			reject("range variable must be an identifier at %s", fv.pos(e.Pos()))
		}
		if id.Name == "_" {
			return nil
		}
		if o := info.Defs[id]; o != nil {
			return o
		}
		return info.Uses[id]
	}
	kObj, vObj := keyObj(s.Key), keyObj(s.Value)
	switch ut := xt.Underlying().(type) {
	case *types.Slice, *types.Array, *types.Basic:
		var n Term
		var coll Term
		isInt := false
		if b, ok := ut.(*types.Basic); ok {
			if b.Info()&types.IsInteger == 0 {
				reject("range over %s", xt)
			}
			n = fv.eval(s.X, st)
			isInt = true
		} else {
			coll = fv.eval(s.X, st)
			if coll.Sort == nil {
				reject("range over unmodelled collection at %s", fv.pos(s.Pos()))
			}
			if coll.Sort.Kind == KSlice {
				n = fv.def("rn", slLen(coll))
			} else {
				n = intT(int64(coll.Sort.Width))
			}
		}
		if n.Sort.Kind == KBV {
			reject("range in bv mode at %s", fv.pos(s.Pos()))
		}
		// constant trip count (e.g. a packed variadic argument list): unroll
		if cnt, ok := constLen(coll, isInt); ok && cnt <= 8 && ls == nil {
			return fv.unrollRange(s, st, coll, cnt, kObj, vObj, label)
		}
		if fv.autoFrames > 0 && ls == nil {
			reject("call to %s without contract (its range loop at %s does not unroll here)", funcKey(fv.frame().fd.fn), fv.pos(s.Pos()))
		}
		iv := types.NewVar(s.Pos(), nil, "ri", types.Typ[types.Int])
		st.vars[iv] = intT(0)
		idx := func(st *State) Term { return st.vars[iv] }
		bindElems := func(st *State) {
			if kObj != nil {
				st.vars[kObj] = idx(st)
			}
		}
		extra := []types.Object{iv}
		if rfo != nil {
			extra = append(extra, rfo.extraMods...)
		}
		res := fv.cutLoop(&loopCfg{loop: s, body: s.Body, ls: ls, ord: ord, label: label, extraMods: extra, idxVar: iv, rfo: rfo,
			sync: bindElems,
			autoInv: func(st *State) Term {
				return and(mk(sortBool, "(<= 0 %s)", idx(st).S), mk(sortBool, "(<= %s %s)", idx(st).S, n.S))
			},
			cond: func(st *State) Term { return mk(sortBool, "(< %s %s)", idx(st).S, n.S) },
			post: func(st *State) *State {
				st.vars[iv] = fv.def("ri", mk(sortInt, "(+ %s 1)", idx(st).S))
				return st
			},
			pre: func(st *State) {
				bindElems(st)
				if vObj != nil && !isInt {
					var ev Term
					if coll.Sort.Kind == KSlice {
						ev = slAt(coll, idx(st))
					} else {
						ev = sel(coll, idx(st), coll.Sort.Elem)
					}
					st.vars[vObj] = fv.def(vObj.Name(), ev)
					fv.assumeTyped(st, st.vars[vObj], vObj.Type())
				}
			}}, st)
		if res != nil {
			delete(res.vars, iv)
		}
		return res
	case *types.Map:
		return fv.execRangeMap(s, ls, ord, label, st, kObj, vObj)
	}
	reject("range over %s at %s", xt, fv.pos(s.Pos()))
	return nil
}

var constLenRe = regexp.MustCompile(`^\(mk_Sl_\S+ .* (\d+)\)$`)

func constLen(coll Term, isInt bool) (int, bool) {
	if isInt || coll.Sort == nil || coll.Sort.Kind != KSlice {
		return 0, false
	}
	m := constLenRe.FindStringSubmatch(coll.S)
	if m == nil {
		return 0, false
	}
	n, err := strconv.Atoi(m[1])
	return n, err == nil
}

func (fv *FuncVerifier) unrollRange(s *ast.RangeStmt, st *State, coll Term, n int, kObj, vObj types.Object, label string) *State {
	fr := fv.frame()
	base := len(st.pc)
	var exits []*State
	cur := st
	for i := 0; i < n && cur != nil; i++ {
		if kObj != nil {
			cur.vars[kObj] = intT(int64(i))
		}
		if vObj != nil {
			cur.vars[vObj] = fv.def(vObj.Name(), slAt(coll, intT(int64(i))))
			fv.assumeTyped(cur, cur.vars[vObj], vObj.Type())
		}
		lf := &loopFrame{label: label}
		fr.loops = append(fr.loops, lf)
		end := fv.execBlock(s.Body.List, cur)
		fr.loops = fr.loops[:len(fr.loops)-1]
		exits = append(exits, lf.breaks...)
		cur = fv.mergeStates(append([]*State{end}, lf.continues...), base)
	}
	return fv.mergeStates(append(exits, cur), base)
}

// letObj is the specification-only variable bound by a let_after clause (typed by its wrapper).
func (fv *FuncVerifier) letObj(ab *AssertBefore) types.Object {
	if o := fv.letObjs[ab.LetName]; o != nil {
		return o
	}
	fd := fv.prog.decls[fv.spec.PkgPath+"."+ab.Clause.Wrapper]
	if fd == nil {
		reject("let_after %s: wrapper not found", ab.LetName)
	}
	rt := fd.fn.Type().(*types.Signature).Results().At(0).Type()
	o := types.NewVar(token.NoPos, fv.fd.fn.Pkg(), ab.LetName, rt)
	if fv.letObjs == nil {
		fv.letObjs = map[string]types.Object{}
	}
	fv.letObjs[ab.LetName] = o
	return o
}

// checkAssertsBefore: contract assertions anchored at this statement.
func (fv *FuncVerifier) checkAssertsBefore(s ast.Stmt, st *State, after bool) {
	fv.checkAssertsInit()
	for _, i := range fv.anchorStmts[s] {
		ab := fv.spec.AssertsBefore[i]
		if ab.After != after || ab.ClosureReq || ab.FromReq {
			continue
		}
		saved := fv.clauseCtx
		fv.clauseCtx = nil
		at := s.Pos()
		if after {
			at = s.End()
		}
		if ab.Apply != "" {
			// lemma application: prove its hypotheses for these arguments, assume its conclusions
			lsp := fv.prog.specs[fv.spec.PkgPath+".lemma."+ab.Apply]
			if lsp == nil {
				reject("apply_after: lemma %s not found", ab.Apply)
			}
			var vals []Term
			for _, ac := range ab.ApplyArgs {
				vals = append(vals, fv.evalClauseHere(ac, st, at))
			}
			fv.clauseCtx = saved
			for k, c := range lsp.Requires {
				fv.oblige(st, "apply-pre", fmt.Sprintf("%d:%d", i, k), fv.evalWrapper(lsp.PkgPath, c.Wrapper, vals, st, nil), s.Pos(), "hypothesis of lemma "+ab.Apply+" applied after `"+ab.Anchor+"`: "+c.Text)
			}
			for _, c := range lsp.Ensures {
				st.assume(fv.evalWrapper(lsp.PkgPath, c.Wrapper, vals, st, st))
			}
			fv.contractUsed[lsp.Key] = true
			fv.u.note("lemma %s applied (proved separately: obligation %s#lemma:*)", ab.Apply, shortName(lsp.Key))
			continue
		}
		if ab.Havoc {
			// interference: the named location may have been changed by another goroutine
			tg := fv.evalLoopModTarget(ab.Clause, st, at)
			fv.clauseCtx = saved
			hn := heapName(tg.ref.Sort)
			cur := fv.heap(st, tg.ref.Sort)
			nh := fv.u.freshConst(hn, cur.Sort)
			fv.nilMapAxiom(hn, nh)
			fv.assumeFrame(st, []modTarget{tg}, tg.ref.Sort, cur, nh, "")
			st.heaps[hn] = nh
			fv.u.note("havoc after `%s`: %s is arbitrary from there on (interference), constrained only by the assume_after clauses that follow", ab.Anchor, ab.Clause.Text)
			continue
		}
		t := fv.evalClauseHere(ab.Clause, st, at)
		fv.clauseCtx = saved
		if ab.LetName != "" {
			st.vars[fv.letObj(ab)] = fv.def(ab.LetName, t)
			continue
		}
		when := "before"
		if after {
			when = "after"
		}
		if ab.Assume {
			fv.u.note("assumed after `%s` (trusted contract of an opaque call): %s", ab.Anchor, ab.Clause.Text)
			st.assume(t)
			continue
		}
		kind := "assert"
		if ab.Hint {
			kind = "hint"
		}
		fv.oblige(st, kind, fmt.Sprint(i), t, s.Pos(), when+" `"+ab.Anchor+"`: "+ab.Clause.Text)
		if ab.Hint {
			st.assume(t) // proved just above: available to the rest of the path (a proof hint)
		}
	}
}

// ---------------------------------------------------------------- range over an iterator function

type clauseCtx struct {
	fr  *frame
	pos token.Pos
}

type yieldCtx struct {
	stmt  *ast.RangeStmt
	fr    *frame // frame of the function containing the range statement
	label string
}

type rangeFuncOverride struct {
	ls          *LoopSpec
	ord         int
	callerFrame *frame
	iterFrame   *frame
	pos         token.Pos
	yield       types.Object
	extraMods   []types.Object
	heaps       bool
	used        bool
}

func callsObj(info *types.Info, n ast.Node, obj types.Object) bool {
	found := false
	ast.Inspect(n, func(n ast.Node) bool {
		if c, ok := n.(*ast.CallExpr); ok {
			if id, ok := ast.Unparen(c.Fun).(*ast.Ident); ok && info.Uses[id] == obj {
				found = true
			}
		}
		return !found
	})
	return found
}

// execRangeFunc executes `for k, v := range f(args) { body }` where f is a function of the loaded
// program whose body is a single `return func(yield ...) {...}`: the iterator body is executed in
// place with yield bound to the loop body. The (single) loop of the iterator that calls yield is
// cut with the loop specification written for the range statement; __ri(0) in it is that loop's index.
func (fv *FuncVerifier) execRangeFunc(s *ast.RangeStmt, st *State, label string, ls *LoopSpec, ord int) *State {
	call, ok := ast.Unparen(s.X).(*ast.CallExpr)
	if !ok {
		reject("range over a function value that is not a call at %s", fv.pos(s.Pos()))
	}
	fn, ok := fv.calleeOf(call).(*types.Func)
	if !ok {
		reject("range over a computed iterator at %s", fv.pos(s.Pos()))
	}
	key := funcKey(fn)
	fd := fv.prog.decls[key]
	if fd == nil || fd.decl.Body == nil || len(fd.decl.Body.List) != 1 {
		reject("range over iterator %s: body not available or not a single return", key)
	}
	ret, ok := fd.decl.Body.List[0].(*ast.ReturnStmt)
	if !ok || len(ret.Results) != 1 {
		reject("range over iterator %s: body is not `return func(yield) {...}`", key)
	}
	lit, ok := ast.Unparen(ret.Results[0]).(*ast.FuncLit)
	if !ok || lit.Type.Params == nil || len(lit.Type.Params.List) != 1 || len(lit.Type.Params.List[0].Names) != 1 {
		reject("range over iterator %s: body is not `return func(yield) {...}`", key)
	}
	ast.Inspect(s.Body, func(n ast.Node) bool {
		switch n.(type) {
		case *ast.FuncLit:
			return false
		case *ast.ReturnStmt:
			reject("return inside the body of a range over an iterator function at %s", fv.pos(n.Pos()))
		}
		return true
	})
	callerFrame := fv.frame()
	cms := fv.modset(s.Body)
	info := callerFrame.info
	for _, e := range []ast.Expr{s.Key, s.Value} {
		if id, ok := e.(*ast.Ident); ok && id.Name != "_" {
			if o := info.Defs[id]; o != nil {
				cms.vars[o] = true
			} else if o := info.Uses[id]; o != nil {
				cms.vars[o] = true
			}
		}
	}
	args, _ := fv.receiverAndArgs(fn, call, st)
	sig := fd.fn.Type().(*types.Signature)
	nf := &frame{fd: fd, info: fd.pkg.TypesInfo, pkg: fd.pkg, tsubst: fv.callTSubst(fn, call)}
	k := 0
	if sig.Recv() != nil {
		if args[0].Sort != nil {
			st.vars[sig.Recv()] = args[0]
		}
		k = 1
	}
	for i := 0; i < sig.Params().Len(); i++ {
		if sig.Variadic() {
			reject("variadic iterator function %s", key)
		}
		if k+i < len(args) && args[k+i].Sort != nil {
			st.vars[sig.Params().At(i)] = args[k+i]
		}
	}
	yobj := fd.pkg.TypesInfo.Defs[lit.Type.Params.List[0].Names[0]]
	if fv.yields == nil {
		fv.yields = map[types.Object]*yieldCtx{}
	}
	fv.yields[yobj] = &yieldCtx{stmt: s, fr: callerFrame, label: label}
	defer delete(fv.yields, yobj)
	ov := &rangeFuncOverride{ls: ls, ord: ord, callerFrame: callerFrame, iterFrame: nil, pos: s.Body.Lbrace, yield: yobj, heaps: cms.heaps}
	for o := range cms.vars {
		ov.extraMods = append(ov.extraMods, o)
	}
	sort.Slice(ov.extraMods, func(i, j int) bool { return ov.extraMods[i].Pos() < ov.extraMods[j].Pos() })
	savedOv := fv.rfOverride
	fv.rfOverride = ov
	defer func() { fv.rfOverride = savedOv }()
	fv.frames = append(fv.frames, nf)
	// runClosureBody pushes a frame derived from nf; the iterator's loop runs in that frame
	ov.iterFrame = nil
	fv.rfPending = ov
	fv.runClosureBody(lit, nf, nil, st)
	fv.frames = fv.frames[:len(fv.frames)-1]
	if !ov.used && ls != nil {
		reject("range over iterator %s: no loop calling yield found for the loop specification", key)
	}
	fv.inlined[key] = true
	return st
}

// callYield runs the body of the range statement that the iterator's yield stands for.
func (fv *FuncVerifier) callYield(yc *yieldCtx, args []Term, st *State) []Term {
	s := yc.stmt
	info := yc.fr.info
	bindv := func(e ast.Expr, v Term) {
		id, ok := e.(*ast.Ident)
		if !ok || id.Name == "_" || v.Sort == nil {
			return
		}
		if o := info.Defs[id]; o != nil {
			st.vars[o] = v
		} else if o := info.Uses[id]; o != nil {
			st.vars[o] = v
		}
	}
	if s.Key != nil && len(args) > 0 {
		bindv(s.Key, args[0])
	}
	if s.Value != nil && len(args) > 1 {
		bindv(s.Value, args[1])
	}
	savedCtx, savedOv := fv.clauseCtx, fv.rfOverride
	fv.clauseCtx, fv.rfOverride = nil, nil
	defer func() { fv.clauseCtx, fv.rfOverride = savedCtx, savedOv }()
	nf := &frame{fd: yc.fr.fd, info: yc.fr.info, pkg: yc.fr.pkg, tsubst: yc.fr.tsubst, results: yc.fr.results}
	lf := &loopFrame{label: yc.label}
	nf.loops = append(nf.loops, lf)
	fv.frames = append(fv.frames, nf)
	base := len(st.pc)
	end := fv.execBlock(s.Body.List, st.clone())
	fv.frames = fv.frames[:len(fv.frames)-1]
	res := types.NewVar(token.NoPos, nil, "yieldres", types.Typ[types.Bool])
	var outs []*State
	for _, c := range append([]*State{end}, lf.continues...) {
		if c != nil {
			c.vars[res] = boolT(true)
			outs = append(outs, c)
		}
	}
	for _, b := range lf.breaks {
		b.vars[res] = boolT(false)
		outs = append(outs, b)
	}
	m := fv.mergeStates(outs, base)
	if m == nil {
		st.assume(boolT(false))
		return []Term{boolT(true)}
	}
	*st = *m
	r := st.vars[res]
	delete(st.vars, res)
	return []Term{r}
}

// runReturnedClosure (pragma returned_closure): the function literal being returned is executed
// as it will be later: captured variables keep their values, every heap (and ghost state) is
// arbitrary except for what the closure_requires clauses say, and old() inside assertions anchored
// in the closure refers to the state at the closure's entry.
func (fv *FuncVerifier) runReturnedClosure(s *ast.ReturnStmt, lit *ast.FuncLit, st *State) {
	cs := st.clone()
	fv.havocAllHeaps(cs)
	fv.checkAssertsInit()
	for _, ab := range fv.spec.AssertsBefore {
		if !ab.ClosureReq {
			continue
		}
		savedE := fv.entry
		fv.entry = cs
		t := fv.evalClauseHere(ab.Clause, cs, s.Pos())
		fv.entry = savedE
		cs.assume(t)
	}
	fv.cover(cs, "closure-entry", boolT(true), "closure_requires are satisfiable")
	savedEntry := fv.entry
	fv.entry = cs.clone()
	fv.u.note("returned closure executed from an arbitrary heap constrained only by closure_requires (assumed at its call sites, not checked there)")
	fv.runClosureBody(lit, fv.frame(), nil, cs)
	fv.entry = savedEntry
}

// runArgClosures (pragma arg_closures): a function literal handed to an opaque call (a callback
// registration such as observe.Observer.OnChange or wazero's WithFunc) is executed as it will be
// later: captured variables keep their values, its parameters and every heap are arbitrary.
// Assertions anchored inside the literal are the obligations; what the callee does with the
// function value stays unmodelled.
func (fv *FuncVerifier) runArgClosures(call *ast.CallExpr, st *State) {
	if _, ok := fv.spec.Pragmas["arg_closures"]; !ok || fv.specMode != 0 || !fv.frame().top {
		return
	}
	for _, a := range call.Args {
		lit, isLit := ast.Unparen(a).(*ast.FuncLit)
		if !isLit {
			continue
		}
		cs := st.clone()
		fv.havocAllHeaps(cs)
		fv.checkAssertsInit()
		sig := fv.frame().info.TypeOf(lit).(*types.Signature)
		args := fv.havocResults(sig.Params(), cs)
		for _, ab := range fv.spec.AssertsBefore {
			if !ab.ClosureReq {
				continue
			}
			savedE := fv.entry
			fv.entry = cs
			t := fv.evalClauseHere(ab.Clause, cs, lit.Pos())
			fv.entry = savedE
			cs.assume(t)
		}
		savedEntry := fv.entry
		fv.entry = cs.clone()
		fv.u.note("callback literal at %s executed from an arbitrary heap with arbitrary arguments (pragma arg_closures); when and how often the callee runs it is not modelled", fv.pos(lit.Pos()))
		fv.cover(cs, fmt.Sprintf("callback-entry:%d", fv.prog.fset.Position(lit.Pos()).Line), boolT(true), "the callback's entry state is satisfiable")
		fv.runClosureBody(lit, fv.frame(), args, cs)
		fv.entry = savedEntry
	}
}

func (fv *FuncVerifier) checkAssertsInit() {
	if fv.anchorStmts != nil {
		return
	}
	fv.anchorStmts = map[ast.Stmt][]int{}
	for i, ab := range fv.spec.AssertsBefore {
		if ab.ClosureReq {
			continue
		}
		if a := findAnchorStmt(fv.prog.fset, fv.fd.decl, ab.Anchor); a != nil {
			fv.anchorStmts[a] = append(fv.anchorStmts[a], i)
		} else if fv.entry != nil {
			// the statement the clause was attached to is gone: the code under contract changed in a
			// way the contract cannot follow. Reported as a failed obligation, not as a tool error.
			fv.oblige(fv.entry.clone(), "anchor", fmt.Sprint(i), boolT(false), fv.fd.decl.Pos(), fmt.Sprintf("the statement `%s` this clause is anchored at is still present in the function", ab.Anchor))
		} else {
			reject("assert anchor %q not found in %s", ab.Anchor, fv.name)
		}
	}
}

// ---------------------------------------------------------------- choice between two method values

// funcChoice is the value of `lo.Ternary(cond, a, b)` when a and b are method values or functions:
// calling it calls a under cond and b otherwise.
type funcChoice struct {
	cond Term
	a, b ast.Expr
	fr   *frame
}

func (fv *FuncVerifier) asFuncChoice(e ast.Expr, st *State) *funcChoice {
	call, ok := ast.Unparen(e).(*ast.CallExpr)
	if !ok || len(call.Args) != 3 {
		return nil
	}
	fn, ok := fv.calleeOf(call).(*types.Func)
	if !ok || fn.Pkg() == nil || fn.Pkg().Path() != "github.com/samber/lo" || fn.Name() != "Ternary" {
		return nil
	}
	if _, isFn := fv.typeOf(call).Underlying().(*types.Signature); !isFn {
		return nil
	}
	for _, a := range call.Args[1:] {
		switch x := ast.Unparen(a).(type) {
		case *ast.SelectorExpr:
			if _, ok := fv.info().Uses[x.Sel].(*types.Func); !ok {
				return nil
			}
		case *ast.Ident:
			if _, ok := fv.info().Uses[x].(*types.Func); !ok {
				return nil
			}
		default:
			return nil
		}
	}
	cond := fv.def("choice", fv.evalCond(call.Args[0], st))
	return &funcChoice{cond: cond, a: call.Args[1], b: call.Args[2], fr: fv.frame()}
}

// callFuncChoice executes f(args) for a funcChoice f: both alternatives on their own copy of the
// state, merged afterwards.
func (fv *FuncVerifier) callFuncChoice(fc *funcChoice, call *ast.CallExpr, st *State) []Term {
	info := fv.info()
	mk1 := func(fun ast.Expr) *ast.CallExpr {
		c := &ast.CallExpr{Fun: fun, Lparen: call.Lparen, Args: call.Args, Ellipsis: call.Ellipsis, Rparen: call.Rparen}
		if tv, ok := info.Types[call]; ok {
			info.Types[c] = tv
		}
		return c
	}
	base := len(st.pc)
	sa := st.clone()
	sa.assume(fc.cond)
	ra := fv.evalCall(mk1(fc.a), sa, false)
	sb := st.clone()
	sb.assume(not(fc.cond))
	rb := fv.evalCall(mk1(fc.b), sb, false)
	var tmp []*types.Var
	for i := range ra {
		v := types.NewVar(token.NoPos, nil, fmt.Sprintf("choiceres%d", i), types.Typ[types.Int])
		tmp = append(tmp, v)
		if ra[i].Sort != nil {
			sa.vars[v] = ra[i]
		}
		if i < len(rb) && rb[i].Sort != nil {
			sb.vars[v] = rb[i]
		}
	}
	m := fv.mergeStates([]*State{sa, sb}, base)
	if m == nil {
		st.assume(boolT(false))
		return ra
	}
	*st = *m
	out := make([]Term, len(ra))
	for i, v := range tmp {
		out[i] = st.vars[v]
		delete(st.vars, v)
	}
	return out
}
