package main

import (
	"fmt"
	"go/ast"
	"go/constant"
	"go/token"
	"go/types"
	"math/big"
	"strings"
)

func (fv *FuncVerifier) intConst(v int64, like *Sort) Term {
	if like != nil && like.Kind == KBV {
		return bvLit(big.NewInt(v), like.Width)
	}
	return intT(v)
}

func (fv *FuncVerifier) constTerm(val constant.Value, t types.Type) (Term, bool) {
	t = fv.subst(t)
	switch val.Kind() {
	case constant.Bool:
		return boolT(constant.BoolVal(val)), true
	case constant.Int:
		bi, ok := new(big.Int).SetString(val.ExactString(), 10)
		if !ok {
			return Term{}, false
		}
		if b, ok := t.Underlying().(*types.Basic); ok && b.Info()&types.IsFloat != 0 {
			return fv.floatConst(val.ExactString()), true
		}
		if tp, isTP := t.(*types.TypeParam); isTP && fv.ownTypeParam(tp) {
			// an integer literal of a type parameter's type: the parameter is an uninterpreted
			// sort, the literal its image under an uninterpreted embedding of the integers
			if srt := fv.sortOf(t); srt != nil && srt.Name != "Int" && srt.Kind != KBV {
				fn := "lit_" + srt.Name
				fv.u.declare("fun:"+fn, fmt.Sprintf("(declare-fun %s (Int) %s)", fn, srt.Name))
				return Term{fmt.Sprintf("(%s %s)", fn, intLit(bi).S), srt}, true
			}
		}
		if fv.u.bv {
			w := 64
			if b, ok := t.Underlying().(*types.Basic); ok && b.Info()&types.IsInteger != 0 {
				w = intWidth(b)
			}
			return bvLit(bi, w), true
		}
		return intLit(bi), true
	case constant.String:
		return fv.strConst(constant.StringVal(val)), true
	case constant.Float:
		return fv.floatConst(val.ExactString()), true
	}
	return Term{}, false
}

// ownTypeParam: tp is a type parameter of the function under verification itself (a literal
// handed to a generic callee is typed by the callee's parameter and keeps its integer sort).
func (fv *FuncVerifier) ownTypeParam(tp *types.TypeParam) bool {
	if fv.fd == nil || fv.fd.fn == nil {
		return false
	}
	sig, ok := fv.fd.fn.Type().(*types.Signature)
	if !ok {
		return false
	}
	for _, l := range []*types.TypeParamList{sig.TypeParams(), sig.RecvTypeParams()} {
		for i := 0; l != nil && i < l.Len(); i++ {
			if l.At(i) == tp {
				return true
			}
		}
	}
	return false
}

func (fv *FuncVerifier) floatConst(lit string) Term {
	s := fv.u.opaque("Float")
	n := "flt_" + sanitize(lit) + fmt.Sprintf("_%x", lit)
	fv.u.declare("const:"+n, fmt.Sprintf("(declare-const %s %s)", n, s.Name))
	return Term{n, s}
}

func (fv *FuncVerifier) strConst(v string) Term {
	s := fv.u.sortOf(types.Typ[types.String])
	if fv.u.strTheory {
		return Term{"\"" + strings.ReplaceAll(v, "\"", "\"\"") + "\"", s}
	}
	if v == "" {
		return fv.u.zero(s)
	}
	// the name must be injective in the literal: two literals that differ only in punctuation
	// sanitize to the same text, so the exact bytes are appended in hex
	n := "str_" + sanitize(v) + fmt.Sprintf("_%d_%x", len(v), v)
	if !fv.u.declared["const:"+n] {
		fv.u.declare("const:"+n, fmt.Sprintf("(declare-const %s %s)", n, s.Name))
		// distinct from other literals
		fv.u.strLits = append(fv.u.strLits, n)
		if len(fv.u.strLits) > 0 {
			all := append([]string{"str_empty"}, fv.u.strLits...)
			fv.u.zero(s)
			fv.u.decls = append(fv.u.decls, fmt.Sprintf("(assert (distinct %s))", strings.Join(all, " ")))
		}
	}
	return Term{n, s}
}

// evalCond evaluates a boolean expression.
func (fv *FuncVerifier) evalCond(e ast.Expr, st *State) Term {
	t := fv.eval(e, st)
	if t.Sort == nil || t.Sort.Kind != KBool {
		reject("condition is not boolean at %s", fv.pos(e.Pos()))
	}
	return t
}

// evalTo evaluates e and converts untyped constants / nil to the target type.
func (fv *FuncVerifier) evalTo(e ast.Expr, target types.Type, st *State) Term {
	if target != nil {
		target = fv.subst(target)
		if tv, ok := fv.info().Types[e]; ok && tv.Value != nil {
			if c, ok := fv.constTerm(tv.Value, target); ok {
				return c
			}
		}
		if id, ok := ast.Unparen(e).(*ast.Ident); ok && id.Name == "nil" {
			if _, isNil := fv.info().Uses[id].(*types.Nil); isNil {
				s := fv.sortOf(target)
				if s == nil {
					return Term{}
				}
				return fv.u.zero(s)
			}
		}
	}
	return fv.eval(e, st)
}

func (fv *FuncVerifier) evalMulti(e ast.Expr, st *State) []Term {
	e = ast.Unparen(e)
	switch x := e.(type) {
	case *ast.CallExpr:
		return fv.evalCall(x, st, false)
	case *ast.IndexExpr: // v, ok := m[k]
		mt, ok := fv.typeOf(x.X).Underlying().(*types.Map)
		if ok {
			m := fv.eval(x.X, st)
			k := fv.evalTo(x.Index, mt.Key(), st)
			dom, val := fv.mapRead(m, st)
			present := sel(dom, k, sortBool)
			v := ite(present, sel(val, k, m.Sort.Elem), fv.u.zero(m.Sort.Elem))
			return []Term{fv.def("mv", v), fv.def("mok", present)}
		}
	case *ast.TypeAssertExpr:
		reject("type assertion at %s", fv.pos(e.Pos()))
	}
	reject("multi-value expression %T at %s", e, fv.pos(e.Pos()))
	return nil
}

func (fv *FuncVerifier) lookupVar(obj types.Object, st *State, p token.Pos) Term {
	if t, ok := fv.bound[obj]; ok {
		return t
	}
	if t, ok := st.vars[obj]; ok {
		return t
	}
	switch o := obj.(type) {
	case *types.Const:
		if c, ok := fv.constTerm(o.Val(), o.Type()); ok {
			return c
		}
	case *types.Var:
		if o.Parent() != nil && o.Parent().Parent() == types.Universe || (o.Pkg() != nil && o.Parent() == o.Pkg().Scope()) {
			return fv.globalVar(o)
		}
	case *types.Nil:
		return Term{"0", sortInt}
	}
	if v, ok := obj.(*types.Var); ok && fv.sortOf(v.Type()) == nil {
		return Term{} // a variable of a type without a model (function value, channel): unmodelled value
	}
	reject("variable %s has no modelled value at %s", obj.Name(), fv.pos(p))
	return Term{}
}

// globalVar models a package-level variable.
func (fv *FuncVerifier) globalVar(o *types.Var) Term {
	s := fv.sortOf(o.Type())
	if s == nil {
		reject("package variable %s.%s has unmodelled type", o.Pkg().Name(), o.Name())
	}
	name := "g_" + sanitize(o.Pkg().Path()) + "_" + o.Name()
	if s.Kind == KErr {
		// sentinel error: non-nil, its own root, distinct from other sentinels
		if !fv.u.declared["const:"+name] {
			fv.u.declare("const:"+name, fmt.Sprintf("(declare-const %s Int)", name))
			fv.u.decls = append(fv.u.decls, fmt.Sprintf("(assert (and (> %s 0) (= (err_root %s) %s)))", name, name, name))
			for _, other := range fv.u.sentinels {
				fv.u.decls = append(fv.u.decls, fmt.Sprintf("(assert (not (= %s %s)))", name, other))
			}
			fv.u.sentinels = append(fv.u.sentinels, name)
			fv.u.note("package-level error %s.%s treated as a constant sentinel", o.Pkg().Name(), o.Name())
		}
		return Term{name, s}
	}
	if strings.HasSuffix(fv.prog.fset.Position(o.Pos()).Filename, "zz_verif_spec_gen.go") {
		// ghost variable: a fixed reference (content lives in the heaps)
		fv.u.declare("const:"+name, fmt.Sprintf("(declare-const %s %s)", name, s.Name))
		t := Term{name, s}
		if s.Kind == KRef && !fv.u.declared["ghostinit:"+name] {
			fv.u.declared["ghostinit:"+name] = true
			tm, ph := fv.termMode, fv.pureHeaps
			fv.termMode, fv.pureHeaps = false, nil // the entry-state allocation set, not a formal of a pure definition
			al := fv.allocSet(&State{heaps: map[string]Term{}}, s)
			fv.termMode, fv.pureHeaps = tm, ph
			fv.u.decls = append(fv.u.decls, fmt.Sprintf("(assert (and (> %s 0) (select %s %s)))", name, al.S, name))
		}
		return t
	}
	// try its initializer when it is a constant-like composite
	if init := fv.prog.globalInit(o); init != nil {
		if t, ok := fv.evalGlobalInit(o, init); ok {
			return t
		}
	}
	fv.u.declare("const:"+name, fmt.Sprintf("(declare-const %s %s)", name, s.Name))
	fv.u.note("package variable %s.%s treated as an arbitrary constant", o.Pkg().Name(), o.Name())
	return Term{name, s}
}

func (fv *FuncVerifier) evalGlobalInit(o *types.Var, gi *globalInit) (t Term, ok bool) {
	defer func(nframes int) {
		if r := recover(); r != nil {
			fv.frames = fv.frames[:nframes] // an unsupported construct met inside nested inlined calls: drop their frames
			if _, isU := r.(unsupported); isU {
				ok = false
				return
			}
			panic(r)
		}
	}(len(fv.frames))
	nf := &frame{info: gi.pkg.TypesInfo, pkg: gi.pkg}
	fv.frames = append(fv.frames, nf)
	defer func() { fv.frames = fv.frames[:len(fv.frames)-1] }()
	fv.specMode++
	defer func() { fv.specMode-- }()
	st := &State{vars: map[types.Object]Term{}, heaps: map[string]Term{}}
	t = fv.evalTo(gi.expr, o.Type(), st)
	fv.u.note("package variable %s.%s evaluated from its initializer (assumed never reassigned)", o.Pkg().Name(), o.Name())
	return t, t.Sort != nil
}

// eval translates an expression to a term, emitting safety obligations.
func (fv *FuncVerifier) eval(e ast.Expr, st *State) Term {
	info := fv.info()
	if tv, ok := info.Types[e]; ok && tv.Value != nil {
		if c, ok := fv.constTerm(tv.Value, tv.Type); ok {
			return c
		}
	}
	switch e := e.(type) {
	case *ast.ParenExpr:
		return fv.eval(e.X, st)
	case *ast.Ident:
		obj := info.Uses[e]
		if obj == nil {
			obj = info.Defs[e]
		}
		if obj == nil {
			reject("unresolved identifier %s at %s", e.Name, fv.pos(e.Pos()))
		}
		return fv.lookupVar(obj, st, e.Pos())
	case *ast.BasicLit:
		reject("literal %s without constant value", e.Value)
	case *ast.SelectorExpr:
		return fv.evalSelector(e, st)
	case *ast.IndexExpr:
		return fv.evalIndex(e, st)
	case *ast.SliceExpr:
		return fv.evalSlice(e, st)
	case *ast.StarExpr:
		p := fv.eval(e.X, st)
		v := fv.deref(p, st, e.Pos())
		if fv.specMode == 0 && !fv.termMode {
			v = fv.def("deref", v)
			if pt, ok := fv.typeOf(e.X).Underlying().(*types.Pointer); ok {
				fv.assumeTyped(st, v, pt.Elem())
			}
		}
		return v
	case *ast.UnaryExpr:
		return fv.evalUnary(e, st)
	case *ast.BinaryExpr:
		return fv.evalBinary(e, st)
	case *ast.CallExpr:
		r := fv.evalCall(e, st, false)
		if len(r) != 1 {
			reject("call used as single value returns %d values at %s", len(r), fv.pos(e.Pos()))
		}
		return r[0]
	case *ast.CompositeLit:
		return fv.evalComposite(e, fv.typeOf(e), st)
	case *ast.FuncLit:
		reject("function literal used as a value at %s", fv.pos(e.Pos()))
	case *ast.TypeAssertExpr:
		reject("type assertion at %s", fv.pos(e.Pos()))
	}
	reject("expression %T at %s", e, fv.pos(e.Pos()))
	return Term{}
}

// assumeTyped adds the facts every Go value of type t satisfies (integer range,
// non-negative slice length).
func (fv *FuncVerifier) assumeTyped(st *State, v Term, t types.Type) {
	if fv.specMode > 0 || fv.termMode || v.Sort == nil {
		return
	}
	t = fv.subst(t)
	switch v.Sort.Kind {
	case KInt:
		if isInteger(t) {
			st.assume(fv.u.inRange(t, v))
		}
	case KRef:
		// a pointer/map value is nil or refers to an allocated object
		st.assume(mk(sortBool, "(>= %s 0)", v.S))
		if !fv.noAllocAssume {
			st.assume(or(eq(v, Term{"0", sortInt}), sel(fv.allocSet(st, v.Sort), v, sortBool)))
		}
	case KSlice:
		st.assume(mk(sortBool, "(>= %s 0)", slLen(v).S))
		// a slice fits in the address space: len * sizeof(elem) <= MaxInt64
		if et := elemType(t); et != nil {
			// a slice fits in the address space: at most 2^56 bytes (x86-64/arm64 virtual addresses are <= 57 bits)
			sz := safeSizeof(fv.subst(et))
			if sz < 1 {
				sz = 1
			}
			lim := new(big.Int).Div(new(big.Int).Lsh(big.NewInt(1), 56), big.NewInt(sz))
			st.assume(mk(sortBool, "(<= %s %s)", slLen(v).S, lim.String()))
			fv.u.note("slice lengths are bounded by the address space (len*sizeof(elem) <= 2^56)")
			// elements of an integer slice are values of the element type
			if et2 := fv.subst(et); v.Sort.Elem != nil && v.Sort.Elem.Kind == KInt && isInteger(et2) && !fv.u.bv {
				if b, ok := et2.Underlying().(*types.Basic); ok && b.Kind() != types.Int && b.Kind() != types.Int64 {
					el := mk(sortInt, "(select %s i!e)", slArr(v).S)
					st.assume(mk(sortBool, "(forall ((i!e Int)) (! %s :pattern (%s)))", fv.u.inRange(et2, el).S, el.S))
				}
			}
		}
	case KStruct:
		if stt, ok := t.Underlying().(*types.Struct); ok {
			for i := 0; i < stt.NumFields(); i++ {
				f := stt.Field(i)
				if fi := v.Sort.field(f.Name()); fi != nil {
					switch fi.Sort.Kind {
					case KInt, KSlice, KStruct, KRef:
						fv.assumeTyped(st, mk(fi.Sort, "(%s %s)", fi.Accessor, v.S), f.Type())
					}
				}
			}
		}
	}
}

var gcSizes = types.SizesFor("gc", "amd64")

func safeSizeof(t types.Type) (sz int64) {
	defer func() {
		if recover() != nil {
			sz = 1
		}
	}()
	if _, ok := t.(*types.TypeParam); ok {
		return 1
	}
	return gcSizes.Sizeof(t)
}

func (fv *FuncVerifier) deref(p Term, st *State, pos token.Pos) Term {
	if p.Sort == nil || p.Sort.Kind != KRef || p.Sort.Key != nil {
		reject("dereference of non-pointer at %s", fv.pos(pos))
	}
	fv.oblige(st, "safe:nil", fmt.Sprint(fv.counter("nil")), not(eq(p, Term{"0", sortInt})), pos, "pointer is not nil")
	return sel(fv.heap(st, p.Sort), p, p.Sort.Elem)
}

// selPath resolves a selector into field steps.
type selStep struct {
	field string
	ftype types.Type
}

func (fv *FuncVerifier) fieldSteps(e *ast.SelectorExpr) ([]selStep, types.Type, bool) {
	sel, ok := fv.info().Selections[e]
	if !ok || sel.Kind() != types.FieldVal {
		return nil, nil, false
	}
	t := fv.subst(sel.Recv())
	var steps []selStep
	for _, idx := range sel.Index() {
		if p, ok := t.Underlying().(*types.Pointer); ok {
			t = p.Elem()
		}
		stt, ok := t.Underlying().(*types.Struct)
		if !ok {
			reject("selector on non-struct %s", t)
		}
		f := stt.Field(idx)
		steps = append(steps, selStep{f.Name(), f.Type()})
		t = fv.subst(f.Type())
	}
	return steps, fv.subst(sel.Recv()), true
}

func (fv *FuncVerifier) evalSelector(e *ast.SelectorExpr, st *State) Term {
	info := fv.info()
	// qualified identifier pkg.Name
	if id, ok := e.X.(*ast.Ident); ok {
		if _, isPkg := info.Uses[id].(*types.PkgName); isPkg {
			obj := info.Uses[e.Sel]
			return fv.lookupVar(obj, st, e.Pos())
		}
	}
	steps, _, ok := fv.fieldSteps(e)
	if !ok {
		reject("method value or unsupported selector %s at %s", e.Sel.Name, fv.pos(e.Pos()))
	}
	cur := fv.eval(e.X, st)
	for _, s := range steps {
		if cur.Sort == nil {
			reject("read through unmodelled value at %s", fv.pos(e.Pos()))
		}
		if cur.Sort.Kind == KRef {
			cur = fv.deref(cur, st, e.Pos())
		}
		if cur.Sort.Kind != KStruct {
			reject("field %s of non-struct sort %s at %s", s.field, cur.Sort.Name, fv.pos(e.Pos()))
		}
		f, ok := fv.u.getField(cur, s.field)
		if !ok {
			// a field whose type has no model at all (function values, channels): its value is
			// "unmodelled" (usable only where an unmodelled value is, e.g. assigned to a variable
			// of such a type or passed to an opaque call)
			if ft := fv.typeOf(e); ft != nil && fv.sortOf(ft) == nil {
				return Term{}
			}
			reject("read of unmodelled field %s at %s", s.field, fv.pos(e.Pos()))
		}
		cur = f
	}
	if fv.specMode == 0 && !fv.termMode && len(steps) > 0 {
		cur = fv.def(e.Sel.Name, cur)
		fv.assumeTyped(st, cur, steps[len(steps)-1].ftype)
	}
	return cur
}

func (fv *FuncVerifier) mapRead(m Term, st *State) (dom, val Term) {
	cs := fv.u.mapContentSort(m.Sort)
	c := sel(fv.heap(st, m.Sort), m, cs)
	return mk(cs.Fields[0].Sort, "(%s %s)", cs.Fields[0].Accessor, c.S), mk(cs.Fields[1].Sort, "(%s %s)", cs.Fields[1].Accessor, c.S)
}

func (fv *FuncVerifier) mapCard(m Term, st *State) Term {
	cs := fv.u.mapContentSort(m.Sort)
	c := sel(fv.heap(st, m.Sort), m, cs)
	return mk(sortInt, "(%s %s)", cs.Fields[2].Accessor, c.S)
}

func (fv *FuncVerifier) evalIndex(e *ast.IndexExpr, st *State) Term {
	xt := fv.typeOf(e.X)
	if _, isSig := xt.Underlying().(*types.Signature); isSig {
		reject("generic function value at %s", fv.pos(e.Pos()))
	}
	x := fv.eval(e.X, st)
	if x.Sort == nil {
		reject("index of unmodelled value at %s", fv.pos(e.Pos()))
	}
	switch ut := xt.Underlying().(type) {
	case *types.Map:
		k := fv.evalTo(e.Index, ut.Key(), st)
		dom, val := fv.mapRead(x, st)
		v := ite(sel(dom, k, sortBool), sel(val, k, x.Sort.Elem), fv.u.zero(x.Sort.Elem))
		v = fv.def("mv", v)
		fv.assumeTyped(st, v, ut.Elem())
		return v
	case *types.Pointer:
		x = fv.deref(x, st, e.Pos())
	}
	i := fv.evalTo(e.Index, types.Typ[types.Int], st)
	i = fv.toIntIndex(i, fv.typeOf(e.Index))
	switch x.Sort.Kind {
	case KSlice:
		fv.oblige(st, "safe:idx", fmt.Sprint(fv.counter("idx")), and(mk(sortBool, "(<= 0 %s)", i.S), mk(sortBool, "(< %s %s)", i.S, slLen(x).S)), e.Pos(), "index in range")
		v := slAt(x, i)
		if fv.specMode == 0 && !fv.termMode {
			v = fv.def("el", v)
			fv.assumeTyped(st, v, elemType(xt))
		}
		return v
	case KArray:
		fv.oblige(st, "safe:idx", fmt.Sprint(fv.counter("idx")), and(mk(sortBool, "(<= 0 %s)", i.S), mk(sortBool, "(< %s %d)", i.S, x.Sort.Width)), e.Pos(), "array index in range")
		v := sel(x, i, x.Sort.Elem)
		if fv.specMode == 0 && !fv.termMode {
			fv.assumeTyped(st, v, elemType(xt))
		}
		return v
	case KString:
		reject("string indexing at %s", fv.pos(e.Pos()))
	}
	reject("index of sort %s at %s", x.Sort.Name, fv.pos(e.Pos()))
	return Term{}
}

func elemType(t types.Type) types.Type {
	switch u := t.Underlying().(type) {
	case *types.Slice:
		return u.Elem()
	case *types.Array:
		return u.Elem()
	case *types.Pointer:
		return elemType(u.Elem())
	case *types.Map:
		return u.Elem()
	}
	return nil
}

// toIntIndex converts an index/length value to the Int sort used by slices.
func (fv *FuncVerifier) toIntIndex(i Term, t types.Type) Term {
	if i.Sort.Kind == KBV {
		if isUnsigned(t) {
			return mk(sortInt, "(bv2nat %s)", i.S)
		}
		fv.u.note("signed bit-vector used as index converted with bv2nat after a non-negativity obligation")
		return mk(sortInt, "(bv2nat %s)", i.S)
	}
	return i
}

func (fv *FuncVerifier) evalSlice(e *ast.SliceExpr, st *State) Term {
	if e.Slice3 {
		reject("3-index slice at %s", fv.pos(e.Pos()))
	}
	xt := fv.typeOf(e.X)
	x := fv.eval(e.X, st)
	if p, ok := xt.Underlying().(*types.Pointer); ok {
		x = fv.deref(x, st, e.Pos())
		xt = p.Elem()
	}
	if x.Sort == nil {
		reject("slice of unmodelled value")
	}
	var n Term
	var arr Term
	switch x.Sort.Kind {
	case KSlice:
		n = slLen(x)
		arr = slArr(x)
	case KArray:
		n = intT(int64(x.Sort.Width))
		arr = x
	default:
		reject("slice expression on %s at %s", x.Sort.Name, fv.pos(e.Pos()))
	}
	lo := intT(0)
	hi := n
	if e.Low != nil {
		lo = fv.toIntIndex(fv.evalTo(e.Low, types.Typ[types.Int], st), fv.typeOf(e.Low))
	}
	if e.High != nil {
		hi = fv.toIntIndex(fv.evalTo(e.High, types.Typ[types.Int], st), fv.typeOf(e.High))
	}
	// Go checks 0 <= lo <= hi <= cap; cap is not modelled, len is used (stricter)
	fv.oblige(st, "safe:slice", fmt.Sprint(fv.counter("slice")), and(mk(sortBool, "(<= 0 %s)", lo.S), mk(sortBool, "(<= %s %s)", lo.S, hi.S), mk(sortBool, "(<= %s %s)", hi.S, n.S)), e.Pos(), "slice bounds in range (against len; cap is not modelled)")
	ss := fv.u.sliceSort(x.Sort.Elem)
	if lo.S == "0" {
		return slMk(ss, arr, hi)
	}
	// shifted view: fresh array with r[i] = a[lo+i]
	if fv.specMode > 0 || fv.termMode || fv.quantDepth > 0 {
		name := "shift_" + sanitize(x.Sort.Elem.Name)
		as := "(Array Int " + x.Sort.Elem.Name + ")"
		fv.u.declare("fun:"+name, fmt.Sprintf("(declare-fun %s (%s Int) %s)\n(assert (forall ((a %s) (k Int) (i Int)) (! (= (select (%s a k) i) (select a (+ k i))) :pattern ((select (%s a k) i)))))", name, as, as, as, name, name))
		return slMk(ss, Term{fmt.Sprintf("(%s %s %s)", name, arr.S, lo.S), arr.Sort}, mk(sortInt, "(- %s %s)", hi.S, lo.S))
	}
	name := "shift_" + sanitize(x.Sort.Elem.Name)
	as := "(Array Int " + x.Sort.Elem.Name + ")"
	fv.u.declare("fun:"+name, fmt.Sprintf("(declare-fun %s (%s Int) %s)\n(assert (forall ((a %s) (k Int) (i Int)) (! (= (select (%s a k) i) (select a (+ k i))) :pattern ((select (%s a k) i)))))", name, as, as, as, name, name))
	return fv.def("sl", slMk(ss, Term{fmt.Sprintf("(%s %s %s)", name, arr.S, lo.S), arr.Sort}, mk(sortInt, "(- %s %s)", hi.S, lo.S)))
}

func (fv *FuncVerifier) evalUnary(e *ast.UnaryExpr, st *State) Term {
	switch e.Op {
	case token.NOT:
		return not(fv.evalCond(e.X, st))
	case token.SUB:
		t := fv.typeOf(e)
		x := fv.eval(e.X, st)
		return fv.arith(token.SUB, fv.intConst(0, x.Sort), x, t, st, e.Pos())
	case token.ADD:
		return fv.eval(e.X, st)
	case token.XOR:
		x := fv.eval(e.X, st)
		if x.Sort.Kind == KBV {
			return mk(x.Sort, "(bvnot %s)", x.S)
		}
		reject("bitwise complement in int mode at %s (use arith bv)", fv.pos(e.Pos()))
	case token.AND:
		if cl, ok := ast.Unparen(e.X).(*ast.CompositeLit); ok {
			t := fv.typeOf(cl)
			v := fv.evalComposite(cl, t, st)
			return fv.alloc(v, st)
		}
		reject("address-of at %s", fv.pos(e.Pos()))
	case token.ARROW:
		if fv.specMode > 0 || fv.termMode {
			reject("channel receive in a specification at %s", fv.pos(e.Pos()))
		}
		return fv.receive(fv.typeOf(e.X), st)
	}
	reject("unary %s at %s", e.Op, fv.pos(e.Pos()))
	return Term{}
}

// alloc creates a fresh heap object holding v.
func (fv *FuncVerifier) alloc(v Term, st *State) Term {
	if fv.specMode > 0 || fv.termMode {
		reject("allocation in specification")
	}
	rs := &Sort{Name: "Int", Kind: KRef, Elem: v.Sort}
	h := fv.heap(st, rs)
	r := fv.u.freshConst("new", sortInt)
	r.Sort = rs
	al := fv.allocSet(st, rs)
	st.assume(mk(sortBool, "(> %s 0)", r.S))
	st.assume(not(sel(al, r, sortBool)))
	st.heaps["alloc:"+heapName(rs)] = fv.def("alloc", store(al, r, boolT(true)))
	fv.setHeap(st, rs, store(h, r, v))
	return r
}

func (fv *FuncVerifier) allocSet(st *State, rs *Sort) Term {
	key := "alloc:" + heapName(rs)
	if a, ok := st.heaps[key]; ok {
		return a
	}
	if fv.termMode && fv.pureHeaps != nil {
		as := &Sort{Name: "(Array Int Bool)", Kind: KSMTArray, Elem: sortBool}
		for _, hf := range *fv.pureHeaps {
			if hf.name == key {
				return Term{"hp_" + sanitize(key), as}
			}
		}
		*fv.pureHeaps = append(*fv.pureHeaps, heapFormal{key, as})
		return Term{"hp_" + sanitize(key), as}
	}
	if a, ok := fv.initHeaps[key]; ok {
		return a
	}
	n := "alloc_" + heapName(rs) + "!0"
	fv.u.declare("heap:"+n, fmt.Sprintf("(declare-const %s (Array Int Bool))", n))
	a := Term{n, &Sort{Name: "(Array Int Bool)", Kind: KSMTArray, Elem: sortBool}}
	fv.initHeaps[key] = a
	return a
}

func (fv *FuncVerifier) evalBinary(e *ast.BinaryExpr, st *State) Term {
	if e.Op == token.EQL || e.Op == token.NEQ {
		// f == nil / f != nil for a function value (not modelled): an arbitrary boolean
		for _, pair := range [][2]ast.Expr{{e.X, e.Y}, {e.Y, e.X}} {
			if id, ok := ast.Unparen(pair[1]).(*ast.Ident); ok && id.Name == "nil" {
				if t := fv.typeOf(pair[0]); t != nil {
					if _, isFn := t.Underlying().(*types.Signature); isFn {
						fv.u.note("nil test of a function value is an arbitrary boolean")
						return fv.u.freshConst("fnnil", sortBool)
					}
				}
			}
		}
	}
	switch e.Op {
	case token.LAND, token.LOR:
		a := fv.evalCond(e.X, st)
		// evaluate the right operand under the guard so its obligations see it
		guard := a
		if e.Op == token.LOR {
			guard = not(a)
		}
		if fv.hasEffects(e.Y) && fv.specMode == 0 && !fv.termMode {
			base := len(st.pc)
			g := fv.def("sc", guard)
			s1 := st.clone()
			s1.assume(g)
			b := fv.evalCond(e.Y, s1)
			tmp := types.NewVar(token.NoPos, nil, "sc", types.Typ[types.Bool])
			s1.vars[tmp] = b
			s2 := st.clone()
			s2.assume(not(g))
			s2.vars[tmp] = boolT(e.Op == token.LOR)
			m := fv.mergeStates([]*State{s1, s2}, base)
			r := m.vars[tmp]
			delete(m.vars, tmp)
			*st = *m
			return r
		}
		n := len(st.pc)
		st.pc = append(st.pc, guard)
		b := fv.evalCond(e.Y, st)
		// keep facts learned while evaluating b only in guarded form
		extra := append([]Term(nil), st.pc[n+1:]...)
		st.pc = st.pc[:n]
		for _, x := range extra {
			st.assume(implies(guard, x))
		}
		if e.Op == token.LAND {
			return and(a, b)
		}
		return or(a, b)
	}
	xt, yt := fv.typeOf(e.X), fv.typeOf(e.Y)
	switch e.Op {
	case token.SHL, token.SHR:
		x := fv.evalTo(e.X, fv.typeOf(e), st)
		return fv.shift(e.Op, x, e.Y, fv.typeOf(e), st, e.Pos())
	}
	// operand type: the non-constant side decides
	opT := xt
	if b, ok := xt.Underlying().(*types.Basic); ok && b.Info()&types.IsUntyped != 0 {
		opT = yt
	}
	if isNilIdent(fv, e.X) {
		opT = yt
	}
	x := fv.evalTo(e.X, opT, st)
	y := fv.evalTo(e.Y, opT, st)
	switch e.Op {
	case token.EQL, token.NEQ:
		if x.Sort == nil || y.Sort == nil {
			reject("comparison of unmodelled values at %s", fv.pos(e.Pos()))
		}
		var r Term
		if x.Sort.Kind == KSlice || y.Sort.Kind == KSlice {
			// only comparison with nil is legal Go
			fv.u.note("slice == nil modelled as len == 0")
			s := x
			if isNilIdent(fv, e.X) {
				s = y
			}
			r = eq(slLen(s), intT(0))
		} else {
			r = eq(x, y)
		}
		if e.Op == token.NEQ {
			return not(r)
		}
		return r
	case token.LSS, token.LEQ, token.GTR, token.GEQ:
		return fv.cmp(e.Op, x, y, opT)
	}
	return fv.binop(e.Op, x, y, fv.typeOf(e), st, e.Pos())
}

func isNilIdent(fv *FuncVerifier, e ast.Expr) bool {
	id, ok := ast.Unparen(e).(*ast.Ident)
	if !ok || id.Name != "nil" {
		return false
	}
	_, isNil := fv.info().Uses[id].(*types.Nil)
	return isNil
}

func (fv *FuncVerifier) cmp(op token.Token, x, y Term, t types.Type) Term {
	if x.Sort.Kind == KBV {
		u := isUnsigned(t)
		var f string
		switch op {
		case token.LSS:
			f = "bvslt"
			if u {
				f = "bvult"
			}
		case token.LEQ:
			f = "bvsle"
			if u {
				f = "bvule"
			}
		case token.GTR:
			f = "bvsgt"
			if u {
				f = "bvugt"
			}
		case token.GEQ:
			f = "bvsge"
			if u {
				f = "bvuge"
			}
		}
		return mk(sortBool, "(%s %s %s)", f, x.S, y.S)
	}
	if x.Sort.Kind == KString {
		if !fv.u.strTheory {
			reject("string ordering without theory strings")
		}
		switch op {
		case token.LSS:
			return mk(sortBool, "(str.< %s %s)", x.S, y.S)
		case token.LEQ:
			return mk(sortBool, "(str.<= %s %s)", x.S, y.S)
		case token.GTR:
			return mk(sortBool, "(str.< %s %s)", y.S, x.S)
		case token.GEQ:
			return mk(sortBool, "(str.<= %s %s)", y.S, x.S)
		}
	}
	if x.Sort.Kind == KOpaque && x.Sort.Name != "Int" {
		// ordered type parameter or float: uninterpreted strict order
		lt := "lt_" + x.Sort.Name
		fv.u.declare("fun:"+lt, fmt.Sprintf("(declare-fun %s (%s %s) Bool)\n(assert (forall ((a %s)) (not (%s a a))))\n(assert (forall ((a %s) (b %s) (c %s)) (=> (and (%s a b) (%s b c)) (%s a c))))\n(assert (forall ((a %s) (b %s)) (or (%s a b) (%s b a) (= a b))))",
			lt, x.Sort.Name, x.Sort.Name, x.Sort.Name, lt, x.Sort.Name, x.Sort.Name, x.Sort.Name, lt, lt, lt, x.Sort.Name, x.Sort.Name, lt, lt))
		switch op {
		case token.LSS:
			return mk(sortBool, "(%s %s %s)", lt, x.S, y.S)
		case token.GTR:
			return mk(sortBool, "(%s %s %s)", lt, y.S, x.S)
		case token.LEQ:
			return not(mk(sortBool, "(%s %s %s)", lt, y.S, x.S))
		case token.GEQ:
			return not(mk(sortBool, "(%s %s %s)", lt, x.S, y.S))
		}
	}
	var f string
	switch op {
	case token.LSS:
		f = "<"
	case token.LEQ:
		f = "<="
	case token.GTR:
		f = ">"
	case token.GEQ:
		f = ">="
	}
	return mk(sortBool, "(%s %s %s)", f, x.S, y.S)
}

// arithRaw builds the arithmetic term without obligations.
func (fv *FuncVerifier) arithRaw(op token.Token, x, y Term) Term {
	if x.Sort.Kind == KBV {
		var f string
		switch op {
		case token.ADD:
			f = "bvadd"
		case token.SUB:
			f = "bvsub"
		case token.MUL:
			f = "bvmul"
		}
		return mk(x.Sort, "(%s %s %s)", f, x.S, y.S)
	}
	var f string
	switch op {
	case token.ADD:
		f = "+"
	case token.SUB:
		f = "-"
	case token.MUL:
		f = "*"
	}
	if op == token.SUB && x.S == "0" {
		return mk(sortInt, "(- %s)", y.S)
	}
	return mk(sortInt, "(%s %s %s)", f, x.S, y.S)
}

// arith builds +,-,* with an overflow obligation in int mode.
func (fv *FuncVerifier) arith(op token.Token, x, y Term, t types.Type, st *State, p token.Pos) Term {
	r := fv.arithRaw(op, x, y)
	if x.Sort.Kind == KInt && isInteger(t) && fv.checkOverflow() {
		r = fv.def("ar", r)
		fv.oblige(st, "safe:ovf", fmt.Sprint(fv.counter("ovf")), fv.u.inRange(t, r), p, fmt.Sprintf("no overflow of %s in %s", op, t))
	}
	return r
}

func (fv *FuncVerifier) checkOverflow() bool {
	if fv.specMode > 0 || fv.termMode {
		return false
	}
	fr := fv.frame()
	if fr.fd != nil {
		if sp := fv.prog.specs[fr.fd.key]; sp != nil && sp.NoOvf {
			return false
		}
	}
	return !fv.spec.NoOvf
}

func (fv *FuncVerifier) binop(op token.Token, x, y Term, t types.Type, st *State, p token.Pos) Term {
	if x.Sort == nil || y.Sort == nil {
		reject("arithmetic on unmodelled values at %s", fv.pos(p))
	}
	switch op {
	case token.ADD:
		if x.Sort.Kind == KString {
			if fv.u.strTheory {
				return mk(x.Sort, "(str.++ %s %s)", x.S, y.S)
			}
			cat := "str_cat"
			fv.u.declare("fun:"+cat, fmt.Sprintf("(declare-fun %s (%s %s) %s)", cat, x.Sort.Name, x.Sort.Name, x.Sort.Name))
			return mk(x.Sort, "(%s %s %s)", cat, x.S, y.S)
		}
		fallthrough
	case token.SUB, token.MUL:
		if x.Sort.Kind == KOpaque {
			return fv.floatOp(op, x, y)
		}
		return fv.arith(op, x, y, t, st, p)
	case token.QUO, token.REM:
		if x.Sort.Kind == KOpaque {
			return fv.floatOp(op, x, y)
		}
		zero := fv.intConst(0, y.Sort)
		fv.oblige(st, "safe:div", fmt.Sprint(fv.counter("div")), not(eq(y, zero)), p, "divisor is not zero")
		if x.Sort.Kind == KBV {
			f := "bvsdiv"
			if op == token.REM {
				f = "bvsrem"
			}
			if isUnsigned(t) {
				f = "bvudiv"
				if op == token.REM {
					f = "bvurem"
				}
			}
			return mk(x.Sort, "(%s %s %s)", f, x.S, y.S)
		}
		if op == token.QUO {
			r := mk(sortInt, "(go_div %s %s)", x.S, y.S)
			if !isUnsigned(t) && fv.checkOverflow() { // MinInt / -1
				fv.oblige(st, "safe:ovf", fmt.Sprint(fv.counter("ovf")), fv.u.inRange(t, r), p, "no overflow of division")
			}
			return r
		}
		return mk(sortInt, "(go_mod %s %s)", x.S, y.S)
	case token.AND, token.OR, token.XOR, token.AND_NOT:
		if x.Sort.Kind == KBool {
			reject("bitwise op on bool")
		}
		if x.Sort.Kind != KBV {
			reject("bitwise %s in int mode at %s (use arith bv)", op, fv.pos(p))
		}
		switch op {
		case token.AND:
			return mk(x.Sort, "(bvand %s %s)", x.S, y.S)
		case token.OR:
			return mk(x.Sort, "(bvor %s %s)", x.S, y.S)
		case token.XOR:
			return mk(x.Sort, "(bvxor %s %s)", x.S, y.S)
		case token.AND_NOT:
			return mk(x.Sort, "(bvand %s (bvnot %s))", x.S, y.S)
		}
	}
	reject("binary %s at %s", op, fv.pos(p))
	return Term{}
}

func (fv *FuncVerifier) floatOp(op token.Token, x, y Term) Term {
	name := "flt_" + map[token.Token]string{token.ADD: "add", token.SUB: "sub", token.MUL: "mul", token.QUO: "div", token.REM: "rem"}[op]
	fv.u.declare("fun:"+name, fmt.Sprintf("(declare-fun %s (%s %s) %s)", name, x.Sort.Name, x.Sort.Name, x.Sort.Name))
	fv.u.note("floating point arithmetic is uninterpreted")
	return mk(x.Sort, "(%s %s %s)", name, x.S, y.S)
}

func (fv *FuncVerifier) shift(op token.Token, x Term, ye ast.Expr, t types.Type, st *State, p token.Pos) Term {
	if x.Sort.Kind == KBV {
		yt := fv.typeOf(ye)
		var y Term
		if tv, ok := fv.info().Types[ye]; ok && tv.Value != nil {
			n, _ := constant.Int64Val(tv.Value)
			y = bvLit(big.NewInt(n), x.Sort.Width)
		} else {
			y = fv.eval(ye, st)
			y = fv.bvResize(y, x.Sort.Width, !isUnsigned(yt))
		}
		switch {
		case op == token.SHL:
			return mk(x.Sort, "(bvshl %s %s)", x.S, y.S)
		case isUnsigned(t):
			return mk(x.Sort, "(bvlshr %s %s)", x.S, y.S)
		default:
			return mk(x.Sort, "(bvashr %s %s)", x.S, y.S)
		}
	}
	tv, ok := fv.info().Types[ye]
	if !ok || tv.Value == nil {
		reject("shift by non-constant in int mode at %s (use arith bv)", fv.pos(p))
	}
	n, _ := constant.Int64Val(tv.Value)
	pow := new(big.Int).Lsh(big.NewInt(1), uint(n))
	if op == token.SHL {
		r := mk(sortInt, "(* %s %s)", x.S, pow.String())
		if fv.checkOverflow() {
			fv.oblige(st, "safe:ovf", fmt.Sprint(fv.counter("ovf")), fv.u.inRange(t, r), p, "no overflow of <<")
		}
		return r
	}
	return mk(sortInt, "(div %s %s)", x.S, pow.String())
}

func (fv *FuncVerifier) bvResize(x Term, w int, signed bool) Term {
	if x.Sort.Kind != KBV {
		reject("bvResize of non-bit-vector")
	}
	switch {
	case x.Sort.Width == w:
		return x
	case x.Sort.Width > w:
		return mk(bvSort(w), "((_ extract %d 0) %s)", w-1, x.S)
	case signed:
		return mk(bvSort(w), "((_ sign_extend %d) %s)", w-x.Sort.Width, x.S)
	default:
		return mk(bvSort(w), "((_ zero_extend %d) %s)", w-x.Sort.Width, x.S)
	}
}

// convert implements T(x).
func (fv *FuncVerifier) convert(x Term, from, to types.Type, st *State, p token.Pos) Term {
	from, to = fv.subst(from), fv.subst(to)
	ts := fv.sortOf(to)
	if ts == nil || x.Sort == nil {
		reject("conversion to/from unmodelled type %s at %s", to, fv.pos(p))
	}
	if isInteger(from) && isInteger(to) {
		if x.Sort.Kind == KBV {
			fb := from.Underlying().(*types.Basic)
			signed := fb.Info()&types.IsUnsigned == 0
			if fb.Info()&types.IsUntyped != 0 {
				signed = true
			}
			return fv.bvResize(x, ts.Width, signed)
		}
		flo, fhi := intRange(defaultInt(from))
		tlo, thi := intRange(to)
		if flo.Cmp(tlo) < 0 || fhi.Cmp(thi) > 0 {
			if fv.spec.Pragmas["wraps"] != "" || fv.specMode > 0 || fv.termMode {
				w := uint(intWidth(to.Underlying().(*types.Basic)))
				m := new(big.Int).Lsh(big.NewInt(1), w)
				if isUnsigned(to) {
					return mk(sortInt, "(mod %s %s)", x.S, m.String())
				}
				h := new(big.Int).Rsh(m, 1)
				return mk(sortInt, "(- (mod (+ %s %s) %s) %s)", x.S, h.String(), m.String(), h.String())
			}
			fv.oblige(st, "safe:conv", fmt.Sprint(fv.counter("conv")), fv.u.inRange(to, x), p, fmt.Sprintf("conversion %s -> %s does not truncate", from, to))
		}
		return x
	}
	if x.Sort.Name == ts.Name {
		x.Sort = ts
		return x
	}
	if x.Sort.Kind == KInt && ts.Kind == KOpaque || x.Sort.Kind == KOpaque && ts.Kind == KInt || x.Sort.Kind == KBV && ts.Kind == KOpaque || x.Sort.Kind == KOpaque && ts.Kind == KBV {
		// int <-> float: uninterpreted
		name := "conv_" + sanitize(x.Sort.Name) + "_" + sanitize(ts.Name)
		fv.u.declare("fun:"+name, fmt.Sprintf("(declare-fun %s (%s) %s)", name, x.Sort.Name, ts.Name))
		fv.u.note("int/float conversion is uninterpreted")
		return mk(ts, "(%s %s)", name, x.S)
	}
	if x.Sort.Kind == KString && ts.Kind == KSlice || x.Sort.Kind == KSlice && ts.Kind == KString {
		name := "conv_" + sanitize(x.Sort.Name) + "_" + sanitize(ts.Name)
		// string([]byte(s)) == s and []byte(string(b)) == b (content)
		inv := "(conv_" + sanitize(ts.Name) + "_" + sanitize(x.Sort.Name) + " "
		if strings.HasPrefix(x.S, inv) && strings.HasSuffix(x.S, ")") {
			return Term{x.S[len(inv) : len(x.S)-1], ts}
		}
		fv.u.declare("fun:"+name, fmt.Sprintf("(declare-fun %s (%s) %s)", name, x.Sort.Name, ts.Name))
		fv.u.note("string/[]byte conversion is uninterpreted")
		return mk(ts, "(%s %s)", name, x.S)
	}
	reject("conversion %s -> %s at %s", from, to, fv.pos(p))
	return Term{}
}

func defaultInt(t types.Type) types.Type {
	if b, ok := t.Underlying().(*types.Basic); ok && b.Info()&types.IsUntyped != 0 {
		return types.Typ[types.Int]
	}
	return t
}

func (fv *FuncVerifier) evalComposite(e *ast.CompositeLit, t types.Type, st *State) Term {
	t = fv.subst(t)
	srt := fv.mustSort(t, "composite literal")
	switch ut := t.Underlying().(type) {
	case *types.Struct:
		vals := map[string]Term{}
		for i, el := range e.Elts {
			if kv, ok := el.(*ast.KeyValueExpr); ok {
				name := kv.Key.(*ast.Ident).Name
				var ft types.Type
				for j := 0; j < ut.NumFields(); j++ {
					if ut.Field(j).Name() == name {
						ft = ut.Field(j).Type()
					}
				}
				if srt.field(name) == nil {
					if !fv.isPureExpr(kv.Value) {
						// evaluate for its effects (an ignored call has none on modelled state);
						// the value itself is not modelled
						if _, isLit := ast.Unparen(kv.Value).(*ast.FuncLit); !isLit {
							func() {
								defer func(nframes int) {
									if r := recover(); r != nil {
										fv.frames = fv.frames[:nframes] // an unsupported construct met inside nested inlined calls: drop their frames
										if _, ok := r.(unsupported); ok {
											reject("unmodelled field %s initialised with effectful expression", name)
										}
										panic(r)
									}
								}(len(fv.frames))
								fv.eval(kv.Value, st)
							}()
						}
					}
					continue
				}
				vals[name] = fv.evalElt(kv.Value, ft, st)
			} else {
				f := ut.Field(i)
				if srt.field(f.Name()) == nil {
					continue
				}
				vals[f.Name()] = fv.evalElt(el, f.Type(), st)
			}
		}
		var args []Term
		for _, f := range srt.Fields {
			if v, ok := vals[f.Name]; ok {
				args = append(args, v)
			} else {
				args = append(args, fv.u.zero(f.Sort))
			}
		}
		return app(srt, "mk_"+srt.Name, args...)
	case *types.Slice:
		arr := slArr(fv.u.zero(srt))
		n := 0
		for _, el := range e.Elts {
			if _, ok := el.(*ast.KeyValueExpr); ok {
				reject("keyed slice literal")
			}
			v := fv.evalElt(el, ut.Elem(), st)
			arr = store(arr, intT(int64(n)), v)
			n++
		}
		return slMk(srt, arr, intT(int64(n)))
	case *types.Array:
		arr := fv.u.zero(srt)
		for i, el := range e.Elts {
			if _, ok := el.(*ast.KeyValueExpr); ok {
				reject("keyed array literal")
			}
			arr = store(arr, intT(int64(i)), fv.evalElt(el, ut.Elem(), st))
		}
		return arr
	case *types.Map:
		m := fv.allocMap(srt, st)
		for _, el := range e.Elts {
			kv := el.(*ast.KeyValueExpr)
			k := fv.evalElt(kv.Key, ut.Key(), st)
			v := fv.evalElt(kv.Value, ut.Elem(), st)
			fv.mapStore(m, k, v, st)
		}
		return m
	}
	reject("composite literal of %s at %s", t, fv.pos(e.Pos()))
	return Term{}
}

func (fv *FuncVerifier) evalElt(e ast.Expr, t types.Type, st *State) Term {
	if cl, ok := e.(*ast.CompositeLit); ok && cl.Type == nil {
		if p, isPtr := t.Underlying().(*types.Pointer); isPtr {
			return fv.alloc(fv.evalComposite(cl, p.Elem(), st), st)
		}
		return fv.evalComposite(cl, t, st)
	}
	return fv.evalTo(e, t, st)
}

func (fv *FuncVerifier) allocMap(ref *Sort, st *State) Term {
	cs := fv.u.mapContentSort(ref)
	h := fv.heap(st, ref)
	r := fv.u.freshConst("newmap", sortInt)
	r.Sort = ref
	al := fv.allocSet(st, ref)
	st.assume(mk(sortBool, "(> %s 0)", r.S))
	st.assume(not(sel(al, r, sortBool)))
	st.heaps["alloc:"+heapName(ref)] = fv.def("alloc", store(al, r, boolT(true)))
	empty := mk(cs, "(mk_%s ((as const %s) false) %s 0)", cs.Name, cs.Fields[0].Sort.Name, fv.arbitraryArray(cs.Fields[1].Sort).S)
	fv.setHeap(st, ref, store(h, r, empty))
	return r
}

func (fv *FuncVerifier) arbitraryArray(s *Sort) Term {
	n := "arb_" + sanitize(s.Name)
	fv.u.declare("const:"+n, fmt.Sprintf("(declare-const %s %s)", n, s.Name))
	return Term{n, s}
}

func (fv *FuncVerifier) mapStore(m, k, v Term, st *State) {
	cs := fv.u.mapContentSort(m.Sort)
	h := fv.heap(st, m.Sort)
	c := sel(h, m, cs)
	dom, val := fv.mapRead(m, st)
	card := fv.mapCard(m, st)
	ncard := ite(sel(dom, k, sortBool), card, mk(sortInt, "(+ %s 1)", card.S))
	nc := mk(cs, "(mk_%s %s %s %s)", cs.Name, store(dom, k, boolT(true)).S, store(val, k, v).S, ncard.S)
	_ = c
	fv.setHeap(st, m.Sort, store(h, m, nc))
}

func (fv *FuncVerifier) mapDelete(m, k Term, st *State) {
	cs := fv.u.mapContentSort(m.Sort)
	h := fv.heap(st, m.Sort)
	dom, val := fv.mapRead(m, st)
	card := fv.mapCard(m, st)
	ncard := ite(sel(dom, k, sortBool), mk(sortInt, "(- %s 1)", card.S), card)
	nc := mk(cs, "(mk_%s %s %s %s)", cs.Name, store(dom, k, boolT(false)).S, val.S, ncard.S)
	fv.setHeap(st, m.Sort, store(h, m, nc))
}

// ---------------------------------------------------------------- assignment

// assign writes v to the location denoted by l.
func (fv *FuncVerifier) assign(l ast.Expr, v Term, st *State) {
	l = ast.Unparen(l)
	info := fv.info()
	switch l := l.(type) {
	case *ast.Ident:
		if l.Name == "_" {
			return
		}
		obj := info.Uses[l]
		if obj == nil {
			obj = info.Defs[l]
		}
		if obj == nil {
			reject("unresolved %s", l.Name)
		}
		if vv, ok := obj.(*types.Var); ok && vv.Pkg() != nil && vv.Parent() == vv.Pkg().Scope() {
			reject("assignment to package variable %s at %s", l.Name, fv.pos(l.Pos()))
		}
		if v.Sort == nil {
			delete(st.vars, obj)
			return
		}
		st.vars[obj] = fv.def(l.Name, v)
	case *ast.SelectorExpr:
		steps, _, ok := fv.fieldSteps(l)
		if !ok {
			reject("assignment to selector %s at %s", l.Sel.Name, fv.pos(l.Pos()))
		}
		fv.assignSteps(l.X, steps, v, st, l.Pos())
	case *ast.IndexExpr:
		xt := fv.typeOf(l.X)
		switch ut := xt.Underlying().(type) {
		case *types.Map:
			m := fv.eval(l.X, st)
			k := fv.evalTo(l.Index, ut.Key(), st)
			fv.oblige(st, "safe:nilmap", fmt.Sprint(fv.counter("nilmap")), not(eq(m, Term{"0", sortInt})), l.Pos(), "write to non-nil map")
			fv.mapStore(m, k, v, st)
			return
		case *types.Slice:
			x := fv.eval(l.X, st)
			i := fv.toIntIndex(fv.evalTo(l.Index, types.Typ[types.Int], st), fv.typeOf(l.Index))
			fv.oblige(st, "safe:idx", fmt.Sprint(fv.counter("idx")), and(mk(sortBool, "(<= 0 %s)", i.S), mk(sortBool, "(< %s %s)", i.S, slLen(x).S)), l.Pos(), "index in range")
			fv.aliasNote(l.X)
			fv.assign(l.X, slMk(x.Sort, store(slArr(x), i, v), slLen(x)), st)
			return
		case *types.Array:
			x := fv.eval(l.X, st)
			i := fv.toIntIndex(fv.evalTo(l.Index, types.Typ[types.Int], st), fv.typeOf(l.Index))
			fv.oblige(st, "safe:idx", fmt.Sprint(fv.counter("idx")), and(mk(sortBool, "(<= 0 %s)", i.S), mk(sortBool, "(< %s %d)", i.S, x.Sort.Width)), l.Pos(), "index in range")
			fv.assign(l.X, store(x, i, v), st)
			return
		}
		reject("indexed assignment on %s at %s", xt, fv.pos(l.Pos()))
	case *ast.StarExpr:
		p := fv.eval(l.X, st)
		if p.Sort == nil || p.Sort.Kind != KRef {
			reject("store through unmodelled pointer at %s", fv.pos(l.Pos()))
		}
		fv.oblige(st, "safe:nil", fmt.Sprint(fv.counter("nil")), not(eq(p, Term{"0", sortInt})), l.Pos(), "pointer is not nil")
		fv.setHeap(st, p.Sort, store(fv.heap(st, p.Sort), p, v))
	default:
		reject("assignment target %T at %s", l, fv.pos(l.Pos()))
	}
}

func (fv *FuncVerifier) aliasNote(e ast.Expr) {
	fv.u.note("slices are values (array,len): an element write is visible only through the written path; other live aliases of the same backing array are not updated")
}

// assignSteps writes v into base.f1.f2...fn.
func (fv *FuncVerifier) assignSteps(base ast.Expr, steps []selStep, v Term, st *State, p token.Pos) {
	cur := fv.eval(base, st)
	// find the last pointer hop: everything after it is a functional update
	type level struct {
		val   Term
		field string
	}
	var chain []level
	var rootRef Term
	hasRef := false
	var prefix []selStep // steps before (and including) last deref are re-evaluated via heap
	_ = prefix
	x := cur
	start := 0
	for i, s := range steps {
		if x.Sort == nil {
			reject("write through unmodelled value at %s", fv.pos(p))
		}
		if x.Sort.Kind == KRef {
			rootRef = x
			hasRef = true
			x = fv.deref(x, st, p)
			chain = nil
			start = i
		}
		chain = append(chain, level{x, s.field})
		if i < len(steps)-1 {
			f, ok := fv.u.getField(x, s.field)
			if !ok {
				reject("write through unmodelled field %s at %s", s.field, fv.pos(p))
			}
			x = f
		}
	}
	_ = start
	nv := v
	for i := len(chain) - 1; i >= 0; i-- {
		nv = fv.u.setField(chain[i].val, chain[i].field, nv)
	}
	if hasRef {
		fv.setHeap(st, rootRef.Sort, store(fv.heap(st, rootRef.Sort), rootRef, nv))
		return
	}
	// pure value path: write back to base expression
	fv.assign(base, nv, st)
}
