package main

import (
	"fmt"
	"os"
)

// tryReplay attempts to turn a counterexample into a test on the real code.
// Returns the replay file and whether the violation was reproduced.
func tryReplay(dir string, o *Obligation, r *checkRun) (string, bool) {
	return writeReplayStub(dir, o, "obligation not discharged"), false
}

func cmdReplay(path string) int {
	data, err := os.ReadFile(path)
	if err != nil {
		fmt.Println("ERROR:", err)
		return 2
	}
	fmt.Print(string(data))
	return 0
}

func runLockset(prog *Prog, pf *PropFile) []*Obligation { return nil }
