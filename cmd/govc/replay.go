package main

import (
	"bytes"
	"encoding/json"
	"fmt"
	"go/token"
	"go/types"
	"os"
	"os/exec"
	"path/filepath"
	"regexp"
	"sort"
	"strconv"
	"strings"
	"time"
)

// replayInfo is what an obligation needs to be replayed on the real code.
type replayInfo struct {
	fv     *FuncVerifier
	inputs []replayInput // receiver + parameters at entry
	clause *Clause       // violated ensures clause (nil for safety obligations)
	kind   string
}

type replayInput struct {
	name string
	typ  types.Type
	term Term
}

const maxReplaySlice = 8

// modelQuery evaluates terms in the model of an obligation (z3, then z3-new).
type modelQuery struct {
	smt   string
	cache map[string]string
	calls int
}

func (q *modelQuery) get(terms []string) (map[string]string, error) {
	out := map[string]string{}
	var need []string
	for _, t := range terms {
		if v, ok := q.cache[t]; ok {
			out[t] = v
		} else {
			need = append(need, t)
		}
	}
	if len(need) == 0 {
		return out, nil
	}
	var sb strings.Builder
	sb.WriteString(q.smt)
	for _, t := range need {
		fmt.Fprintf(&sb, "(get-value (%s))\n", t)
	}
	f, err := os.CreateTemp("", "govc-model-*.smt2")
	if err != nil {
		return nil, err
	}
	defer os.Remove(f.Name())
	f.WriteString(sb.String())
	f.Close()
	q.calls++
	for _, solver := range [][]string{{"z3-new", "-T:20"}, {"/usr/bin/z3", "-T:20"}} {
		cmd := exec.Command(solver[0], append(solver[1:], f.Name())...)
		var buf bytes.Buffer
		cmd.Stdout = &buf
		cmd.Run()
		lines := strings.Split(strings.TrimSpace(buf.String()), "\n")
		if len(lines) == 0 || strings.TrimSpace(lines[0]) != "sat" {
			continue
		}
		// each get-value answer: ((term value)) possibly multi-line; re-join and split on top-level
		rest := strings.Join(lines[1:], " ")
		vals := splitTopLevelSexprs(rest)
		if len(vals) != len(need) {
			continue
		}
		for i, v := range vals {
			// ((term value)) -> value
			inner := strings.TrimSpace(v)
			inner = strings.TrimPrefix(inner, "((")
			inner = strings.TrimSuffix(inner, "))")
			val := strings.TrimSpace(strings.TrimPrefix(inner, need[i]))
			q.cache[need[i]] = val
			out[need[i]] = val
		}
		return out, nil
	}
	return nil, fmt.Errorf("no model available")
}

func splitTopLevelSexprs(s string) []string {
	var out []string
	d, start := 0, -1
	for i, c := range s {
		switch c {
		case '(':
			if d == 0 {
				start = i
			}
			d++
		case ')':
			d--
			if d == 0 && start >= 0 {
				out = append(out, s[start:i+1])
				start = -1
			}
		}
	}
	return out
}

var negRe = regexp.MustCompile(`^\(-\s+(\d+)\)$`)

func parseIntVal(v string) (int64, bool) {
	v = strings.TrimSpace(v)
	if m := negRe.FindStringSubmatch(v); m != nil {
		n, err := strconv.ParseInt(m[1], 10, 64)
		if err != nil {
			// -2^63
			if m[1] == "9223372036854775808" {
				return -9223372036854775808, true
			}
			return 0, false
		}
		return -n, true
	}
	if strings.HasPrefix(v, "#x") {
		n, err := strconv.ParseUint(v[2:], 16, 64)
		return int64(n), err == nil
	}
	if strings.HasPrefix(v, "#b") {
		n, err := strconv.ParseUint(v[2:], 2, 64)
		return int64(n), err == nil
	}
	n, err := strconv.ParseInt(v, 10, 64)
	if err != nil {
		u, err2 := strconv.ParseUint(v, 10, 64)
		return int64(u), err2 == nil
	}
	return n, true
}

// goBuilder turns model values into Go source that constructs the inputs.
type goBuilder struct {
	fv      *FuncVerifier
	q       *modelQuery
	pkg     *types.Package
	imports map[string]string // path -> alias
	stmts   []string
	objs    map[string]string // heap:ref -> variable name
	nvar    int
	strs    map[string]string
	maxLen  int
	prefix  string
	failed  string
	bigLen  string
}

func (b *goBuilder) qual(p *types.Package) string {
	if p == b.pkg {
		return ""
	}
	if a, ok := b.imports[p.Path()]; ok {
		return a
	}
	a := fmt.Sprintf("rp%d", len(b.imports))
	b.imports[p.Path()] = a
	return a
}

func (b *goBuilder) typeStr(t types.Type) string { return types.TypeString(t, b.qual) }

func (b *goBuilder) fail(format string, args ...any) string {
	if b.failed == "" {
		b.failed = fmt.Sprintf(format, args...)
	}
	return "nil"
}

func (b *goBuilder) val1(term string) string {
	m, err := b.q.get([]string{term})
	if err != nil {
		b.fail("model query failed: %v", err)
		return "0"
	}
	return m[term]
}

// expr returns a Go expression for the value of SMT term `t` of Go type `typ`.
func (b *goBuilder) expr(t Term, typ types.Type, heaps map[string]Term) string {
	if b.failed != "" {
		return "nil"
	}
	if t.Sort == nil {
		return b.zeroOf(typ)
	}
	switch t.Sort.Kind {
	case KInt, KBV:
		v, ok := parseIntVal(b.val1(t.S))
		if !ok {
			return b.fail("cannot parse integer %q", b.val1(t.S))
		}
		if isUnsigned(typ) {
			return fmt.Sprintf("%s(%d)", b.typeStr(typ), uint64(v))
		}
		return fmt.Sprintf("%s(%d)", b.typeStr(typ), v)
	case KBool:
		return b.val1(t.S)
	case KString:
		v := b.val1(t.S)
		if b.fv.u.strTheory {
			return fmt.Sprintf("%s(%s)", b.typeStr(typ), strconv.Quote(strings.Trim(v, `"`)))
		}
		if v == b.val1("str_empty") && b.fv.u.declared["const:str_empty"] {
			return fmt.Sprintf("%s(\"\")", b.typeStr(typ))
		}
		if _, ok := b.strs[v]; !ok {
			b.strs[v] = fmt.Sprintf("s%d", len(b.strs))
		}
		return fmt.Sprintf("%s(%q)", b.typeStr(typ), b.strs[v])
	case KErr:
		v, _ := parseIntVal(b.val1(t.S))
		if v == 0 {
			return "nil"
		}
		b.imports["errors"] = "rpstderrors"
		return fmt.Sprintf("rpstderrors.New(\"replay-error-%d\")", v)
	case KStruct:
		st, ok := typ.Underlying().(*types.Struct)
		if !ok {
			return b.fail("struct sort for non-struct type %s", typ)
		}
		// build through a variable so unexported/embedded fields can be set by name
		b.nvar++
		name := fmt.Sprintf("%sv%d", b.prefix, b.nvar)
		b.stmts = append(b.stmts, fmt.Sprintf("var %s %s", name, b.typeStr(typ)))
		b.fillStruct(name, t, st, heaps)
		return name
	case KSlice:
		n, ok := parseIntVal(b.val1(slLen(t).S))
		if !ok || n < 0 {
			return b.fail("bad slice length")
		}
		if n > maxReplaySlice {
			b.bigLen = slLen(t).S
			return b.fail("model needs a slice of length %d (> %d)", n, maxReplaySlice)
		}
		if int(n) > b.maxLen {
			b.maxLen = int(n)
		}
		et := elemType(typ)
		var elems []string
		for i := int64(0); i < n; i++ {
			elems = append(elems, b.expr(slAt(t, intT(i)), et, heaps))
		}
		return fmt.Sprintf("%s{%s}", b.typeStr(typ), strings.Join(elems, ", "))
	case KArray:
		et := elemType(typ)
		var elems []string
		for i := 0; i < t.Sort.Width && i < 64; i++ {
			elems = append(elems, b.expr(sel(t, intT(int64(i)), t.Sort.Elem), et, heaps))
		}
		return fmt.Sprintf("%s{%s}", b.typeStr(typ), strings.Join(elems, ", "))
	case KRef:
		if t.Sort.Key != nil {
			return b.fail("map-valued input (not replayable)")
		}
		r, _ := parseIntVal(b.val1(t.S))
		if r == 0 {
			return "nil"
		}
		hn := heapName(t.Sort)
		key := fmt.Sprintf("%s:%d", hn, r)
		if v, ok := b.objs[key]; ok {
			return v
		}
		pt, ok := typ.Underlying().(*types.Pointer)
		if !ok {
			return b.fail("reference sort for non-pointer type %s", typ)
		}
		b.nvar++
		name := fmt.Sprintf("%sp%d", b.prefix, b.nvar)
		b.objs[key] = name
		b.stmts = append(b.stmts, fmt.Sprintf("%s := new(%s)", name, b.typeStr(pt.Elem())))
		h, ok := heaps[hn]
		if !ok {
			return name // never read: leave zero
		}
		obj := sel(h, Term{fmt.Sprint(r), sortInt}, t.Sort.Elem)
		if st, ok := pt.Elem().Underlying().(*types.Struct); ok {
			b.fillStruct("(*"+name+")", obj, st, heaps)
		} else {
			b.stmts = append(b.stmts, fmt.Sprintf("*%s = %s", name, b.expr(obj, pt.Elem(), heaps)))
		}
		return name
	case KOpaque:
		return b.zeroOf(typ)
	}
	return b.fail("unsupported sort %s in replay", t.Sort.Name)
}

func (b *goBuilder) fillStruct(lhs string, t Term, st *types.Struct, heaps map[string]Term) {
	for i := 0; i < st.NumFields(); i++ {
		f := st.Field(i)
		fi := t.Sort.field(f.Name())
		if fi == nil {
			// unmodelled field: give pointer fields a zero object so that the real code
			// does not trip over a nil the model never constrained
			if pt, ok := f.Type().Underlying().(*types.Pointer); ok && f.Name() != "_" {
				if _, isIface := pt.Elem().Underlying().(*types.Interface); !isIface {
					b.stmts = append(b.stmts, fmt.Sprintf("%s.%s = new(%s)", lhs, f.Name(), b.typeStr(pt.Elem())))
				}
			}
			continue
		}
		ft := b.fv.subst(f.Type())
		fterm := mk(fi.Sort, "(%s %s)", fi.Accessor, t.S)
		if fst, ok := ft.Underlying().(*types.Struct); ok && fi.Sort.Kind == KStruct {
			b.fillStruct(lhs+"."+f.Name(), fterm, fst, heaps)
			continue
		}
		e := b.expr(fterm, ft, heaps)
		if b.failed != "" {
			return
		}
		b.stmts = append(b.stmts, fmt.Sprintf("%s.%s = %s", lhs, f.Name(), e))
	}
}

func (b *goBuilder) zeroOf(typ types.Type) string {
	switch typ.Underlying().(type) {
	case *types.Pointer, *types.Slice, *types.Map, *types.Interface, *types.Signature, *types.Chan:
		return "nil"
	}
	return fmt.Sprintf("*new(%s)", b.typeStr(typ))
}

var identRe = regexp.MustCompile(`[A-Za-z_][A-Za-z0-9_]*`)

// goClause renders a contract clause as executable Go: old(e) becomes e over the
// pre-state copies (parameter x -> old_x).
func goClause(text string, params []string) (string, error) {
	expr, err := rewriteSpecExec(text)
	if err != nil {
		return "", err
	}
	isParam := map[string]bool{}
	for _, p := range params {
		isParam[p] = true
	}
	var out strings.Builder
	i := 0
	for i < len(expr) {
		k := strings.Index(expr[i:], "__old(")
		if k < 0 {
			out.WriteString(expr[i:])
			break
		}
		out.WriteString(expr[i : i+k])
		j := i + k + len("__old(")
		d := 1
		e := j
		for e < len(expr) && d > 0 {
			switch expr[e] {
			case '(':
				d++
			case ')':
				d--
			}
			e++
		}
		inner := expr[j : e-1]
		// do not rename selectors (.x) or keyed fields
		renamed := identRe.ReplaceAllStringFunc(inner, func(id string) string { return id })
		var sb strings.Builder
		last := 0
		for _, loc := range identRe.FindAllStringIndex(inner, -1) {
			id := inner[loc[0]:loc[1]]
			sb.WriteString(inner[last:loc[0]])
			prevDot := loc[0] > 0 && inner[loc[0]-1] == '.'
			if isParam[id] && !prevDot {
				sb.WriteString("old_" + id)
			} else {
				sb.WriteString(id)
			}
			last = loc[1]
		}
		sb.WriteString(inner[last:])
		_ = renamed
		out.WriteString("(" + sb.String() + ")")
		i = e
	}
	return out.String(), nil
}

// tryReplay attempts to turn a counterexample into a test on the real code.
// Returns the replay file and whether the violation was reproduced.
func tryReplay(dir string, o *Obligation, r *checkRun) (string, bool) {
	stub := func(why string) (string, bool) { return writeReplayStub(dir, o, why), false }
	relaxed := false
	smtText := o.SMT
	if o.Result != "sat" {
		// No model: the quantified assumptions defeated the solver. Search for a candidate input
		// in a relaxed query (quantified assumptions dropped). A candidate proves nothing by
		// itself: it counts only if the real code, run on it with every precondition checked on
		// the concrete input, violates the clause.
		if o.replay == nil || o.SMT == "" || (o.Result != "timeout" && o.Result != "unknown") {
			return stub("obligation not discharged; the solver gave no model (" + o.Result + ")")
		}
		rs, ok := relaxQuery(o.SMT)
		if !ok {
			return stub("obligation not discharged; the solver gave no model (" + o.Result + "); relaxed search found no candidate")
		}
		smtText, relaxed = rs, true
	}
	ri := o.replay
	if ri == nil || ri.fv == nil || ri.fv.fd == nil {
		return stub("no replay information for this obligation kind")
	}
	fv := ri.fv
	if fv.spec.Kind == SKLemma {
		return stub("lemma over specification functions: no executable to replay")
	}
	q := &modelQuery{smt: smtText, cache: map[string]string{}}
	pkg := fv.fd.pkg
	pkgNames := pkgImportNames(pkg)
	mk := func(prefix string) *goBuilder {
		im := map[string]string{}
		for k, v := range pkgNames {
			im[k] = v
		}
		return &goBuilder{fv: fv, q: q, pkg: pkg.Types, imports: im, objs: map[string]string{}, strs: map[string]string{}, prefix: prefix}
	}
	fv.frames = []*frame{{fd: fv.fd, info: pkg.TypesInfo, pkg: pkg}}
	var cur, old *goBuilder
	var argNames []string
	var decls []string
	for attempt := 0; attempt < 8; attempt++ {
		cur = mk("in_")
		old = mk("old_")
		old.imports = cur.imports
		old.strs = cur.strs
		argNames, decls = nil, nil
		retry := false
		for _, in := range ri.inputs {
			if in.term.Sort == nil {
				e := cur.zeroOf(in.typ)
				if types.TypeString(in.typ, nil) == "context.Context" {
					cur.imports["context"] = "context"
					e = "context.Background()"
				}
				decls = append(decls, fmt.Sprintf("var %s %s = %s", in.name, cur.typeStr(in.typ), e), fmt.Sprintf("old_%s := %s", in.name, in.name), fmt.Sprintf("_, _ = %s, old_%s", in.name, in.name))
				argNames = append(argNames, in.name)
				continue
			}
			e := cur.expr(in.term, in.typ, fv.initHeaps)
			eo := old.expr(in.term, in.typ, fv.initHeaps)
			if cur.failed != "" {
				if cur.bigLen != "" {
					// ask for a smaller counterexample
					q.smt = strings.Replace(q.smt, "(check-sat)", fmt.Sprintf("(assert (<= %s 3))\n(check-sat)", cur.bigLen), 1)
					q.cache = map[string]string{}
					retry = true
					break
				}
				return stub("counterexample not replayable: " + cur.failed)
			}
			if types.TypeString(in.typ, nil) == "context.Context" {
				cur.imports["context"] = "context"
				e, eo = "context.Background()", "context.Background()"
			}
			ts := cur.typeStr(in.typ)
			decls = append(decls, fmt.Sprintf("var %s %s = %s", in.name, ts, e), fmt.Sprintf("var old_%s %s = %s", in.name, ts, eo), fmt.Sprintf("_, _ = %s, old_%s", in.name, in.name))
			argNames = append(argNames, in.name)
		}
		if !retry {
			break
		}
		if attempt == 7 {
			return stub("counterexample not replayable: no small model found")
		}
	}
	sig := fv.fd.fn.Type().(*types.Signature)
	// call expression
	var call string
	args := argNames
	if sig.Recv() != nil {
		call = fmt.Sprintf("%s.%s(", args[0], fv.fd.fn.Name())
		args = args[1:]
	} else {
		call = fv.fd.fn.Name() + "("
	}
	for i, a := range args {
		if i > 0 {
			call += ", "
		}
		if sig.Variadic() && i == sig.Params().Len()-1 {
			call += a + "..."
		} else {
			call += a
		}
	}
	call += ")"
	var resNames []string
	for _, rp := range fv.spec.Results {
		resNames = append(resNames, rp.Name)
	}
	clauseGo := "true"
	if ri.clause != nil {
		var pnames []string
		for _, p := range fv.spec.allParams() {
			pnames = append(pnames, p.Name)
		}
		cg, err := goClause(ri.clause.Text, pnames)
		if err != nil {
			return stub("clause not renderable: " + err.Error())
		}
		clauseGo = cg
	}
	if strings.Contains(clauseGo, "Spec") && regexp.MustCompile(`\bSpec[A-Z]`).MatchString(clauseGo) {
		// uninterpreted ghost functions cannot be executed
		if usesUninterpreted(fv, clauseGo) {
			return stub("the violated clause mentions ghost/uninterpreted specification functions: not executable")
		}
	}
	testName := "TestVerifReplay_" + sanitize(o.Name)
	var src strings.Builder
	fmt.Fprintf(&src, "//go:build verif\n\npackage %s\n\nimport (\n\t\"testing\"\n", pkg.Name)
	src.WriteString("/*IMPORTS*/)\n\n")
	fmt.Fprintf(&src, "// Replay of obligation %s\n// goal: %s\n// position: %s\n", o.Name, o.Goal, o.Pos)
	fmt.Fprintf(&src, "func %s(rpT *testing.T) {\n\t__replayBound = %d\n", testName, cur.maxLen+2)
	for _, s := range cur.stmts {
		fmt.Fprintf(&src, "\t%s\n", s)
	}
	for _, s := range old.stmts {
		fmt.Fprintf(&src, "\t%s\n", s)
	}
	for _, s := range decls {
		fmt.Fprintf(&src, "\t%s\n", s)
	}
	if len(resNames) > 0 {
		fmt.Fprintf(&src, "\tvar (\n")
		for i, rn := range resNames {
			fmt.Fprintf(&src, "\t\t%s %s\n", rn, cur.typeStr(sig.Results().At(i).Type()))
		}
		fmt.Fprintf(&src, "\t)\n")
	}
	if relaxed {
		var pn []string
		for _, p := range fv.spec.Params {
			pn = append(pn, p.Name)
		}
		if fv.spec.Recv != nil {
			pn = append(pn, fv.spec.Recv.Name)
		}
		for _, rc := range fv.spec.Requires {
			rg, err := goClause(rc.Text, nil)
			if err != nil || usesUninterpreted(fv, rg) {
				return stub("relaxed candidate: a precondition cannot be checked on concrete inputs: " + rc.Text)
			}
			fmt.Fprintf(&src, "\tif !func() (ok bool) { defer func() { if recover() != nil { ok = false } }(); return %s }() {\n\t\trpT.Skipf(\"VERIF-INCONCLUSIVE: candidate input violates the precondition %%s\", %q)\n\t}\n", rg, rc.Text)
		}
		_ = pn
	}
	src.WriteString("\tpanicked := func() (__pv any) {\n\t\tdefer func() { __pv = recover() }()\n")
	if len(resNames) > 0 {
		fmt.Fprintf(&src, "\t\t%s = %s\n", strings.Join(resNames, ", "), call)
	} else {
		fmt.Fprintf(&src, "\t\t%s\n", call)
	}
	src.WriteString("\t\treturn nil\n\t}()\n")
	for _, rn := range resNames {
		fmt.Fprintf(&src, "\t_ = %s\n", rn)
	}
	wantPanic := map[string]string{"safe:idx": "index out of range", "safe:slice": "slice bounds out of range", "safe:nil": "nil pointer dereference",
		"safe:div": "divide by zero", "safe:nilmap": "assignment to entry in nil map", "safe:make": "makeslice", "safe:panic": ""}[ri.kind]
	if _, isSafe := map[string]bool{"safe:idx": true, "safe:slice": true, "safe:nil": true, "safe:div": true, "safe:nilmap": true, "safe:make": true, "safe:panic": true}[ri.kind]; isSafe {
		cur.imports["fmt"] = "fmt"
		cur.imports["strings"] = "strings"
		fmt.Fprintf(&src, "\tif panicked != nil && strings.Contains(fmt.Sprint(panicked), %q) {\n\t\trpT.Fatalf(\"VERIF-REPRODUCED: the real function panicked: %%v\", panicked)\n\t}\n", wantPanic)
		src.WriteString("\tif panicked != nil {\n\t\trpT.Skipf(\"VERIF-INCONCLUSIVE: unrelated panic: %v\", panicked)\n\t}\n")
	} else {
		src.WriteString("\tif panicked != nil {\n\t\trpT.Skipf(\"VERIF-INCONCLUSIVE: the real function panicked (possibly on state the model does not describe): %v\", panicked)\n\t}\n")
	}
	fmt.Fprintf(&src, "\tif !(%s) {\n\t\trpT.Fatalf(\"VERIF-REPRODUCED: clause violated on the real code: %%s\", %q)\n\t}\n", clauseGo, o.Goal)
	src.WriteString("\trpT.Log(\"VERIF-NOT-REPRODUCED: the clause holds on these inputs\")\n}\n")
	// only the imports the file uses
	var ipaths []string
	for p := range cur.imports {
		ipaths = append(ipaths, p)
	}
	sort.Strings(ipaths)
	body := src.String()
	var ib strings.Builder
	for _, p := range ipaths {
		if regexp.MustCompile(`(^|[^A-Za-z0-9_])` + regexp.QuoteMeta(cur.imports[p]) + `\.`).MatchString(body) {
			fmt.Fprintf(&ib, "\t%s %q\n", cur.imports[p], p)
		}
	}
	body = strings.Replace(body, "/*IMPORTS*/", ib.String(), 1)
	src.Reset()
	src.WriteString(body)
	// files
	os.MkdirAll(dir, 0o755)
	base := filepath.Join(dir, sanitize(o.Name))
	testFile := base + "_test.go"
	os.WriteFile(testFile, []byte(src.String()), 0o644)
	// executable spec file: the generated one with runtime helper bodies
	pdir := pkgDir(fv.fd.pkg)
	repl := map[string]string{filepath.Join(pdir, "zz_verif_replay_test.go"): testFile}
	// executable specification files for every package with contracts
	var cpaths []string
	for pp := range fv.prog.contracts {
		cpaths = append(cpaths, pp)
	}
	sort.Strings(cpaths)
	for _, pp := range cpaths {
		specSrc, err := replaySpecFile(fv.prog, pp, fv.prog.contracts[pp])
		if err != nil {
			return stub("cannot build executable specification file: " + err.Error())
		}
		specFile := base + "_spec_" + sanitize(strings.TrimPrefix(pp, "github.com/synnaxlabs/")) + ".go"
		os.WriteFile(specFile, []byte(specSrc), 0o644)
		repl[filepath.Join(pkgDir(fv.prog.pkgs[pp]), "zz_verif_spec_gen.go")] = specFile
	}
	overlay := map[string]any{"Replace": repl}
	ovFile := base + "_overlay.json"
	data, _ := json.MarshalIndent(overlay, "", " ")
	os.WriteFile(ovFile, data, 0o644)
	meta := map[string]any{"obligation": o.Name, "goal": o.Goal, "pos": o.Pos, "test": testName, "package_dir": pdir, "overlay": ovFile, "test_file": testFile, "smt": o.File, "solver": o.Solver}
	metaFile := base + ".replay.json"
	out, reproduced, ran := runReplay(pdir, ovFile, testName)
	meta["ran"] = ran
	meta["reproduced"] = reproduced
	meta["output"] = out
	md, _ := json.MarshalIndent(meta, "", " ")
	os.WriteFile(metaFile, md, 0o644)
	return metaFile, reproduced
}

func usesUninterpreted(fv *FuncVerifier, clause string) bool {
	for _, sp := range fv.prog.specs {
		if sp.Kind == SKSpecFunc && sp.Body == "" && regexp.MustCompile(`\b`+regexp.QuoteMeta(sp.Name)+`\(`).MatchString(clause) {
			return true
		}
	}
	return false
}

// runReplay runs the generated test with go test -overlay on the real code.
func runReplay(pdir, overlay, testName string) (string, bool, bool) {
	modDir := pdir
	for modDir != "/" {
		if _, err := os.Stat(filepath.Join(modDir, "go.mod")); err == nil {
			break
		}
		modDir = filepath.Dir(modDir)
	}
	rel, _ := filepath.Rel(modDir, pdir)
	cmd := exec.Command("go", "test", "-tags=verif", "-overlay", overlay, "-vet=off", "-v", "-count=1", "-timeout", "120s", "-run", "^"+testName+"$", "./"+rel)
	cmd.Dir = modDir
	env := []string{}
	for _, e := range os.Environ() {
		if strings.HasPrefix(e, "GOFLAGS=") || strings.HasPrefix(e, "GOTOOLCHAIN=") || strings.HasPrefix(e, "GOSUMDB=") || strings.HasPrefix(e, "GOWORK=") {
			continue
		}
		env = append(env, e)
	}
	cmd.Env = append(env, "GOFLAGS=-mod=mod", "GOTOOLCHAIN=local", "GOPROXY=off", "GOSUMDB=off", "GOWORK=off")
	var buf bytes.Buffer
	cmd.Stdout = &buf
	cmd.Stderr = &buf
	done := make(chan error, 1)
	go func() { done <- cmd.Run() }()
	select {
	case <-done:
	case <-time.After(300 * time.Second):
		cmd.Process.Kill()
		return "replay timed out", false, false
	}
	out := buf.String()
	if len(out) > 6000 {
		out = out[:6000]
	}
	if strings.Contains(out, "VERIF-REPRODUCED") {
		return out, true, true
	}
	return out, false, strings.Contains(out, "VERIF-NOT-REPRODUCED")
}

// replaySpecFile: the generated specification file with executable helper bodies.
func replaySpecFile(prog *Prog, pkgPath string, pc *PkgContracts) (string, error) {
	if pc == nil {
		return "", fmt.Errorf("package has no contracts")
	}
	p := prog.pkgs[pkgPath]
	if p == nil {
		return "", fmt.Errorf("package not loaded")
	}
	return genSpecForX(p, pc, true)
}

func cmdReplay(path string) int {
	data, err := os.ReadFile(path)
	if err != nil {
		fmt.Println("ERROR:", err)
		return 2
	}
	if !strings.HasSuffix(path, ".replay.json") {
		fmt.Print(string(data))
		fmt.Println("(no executable replay for this obligation: no-failing-input-found)")
		return 0
	}
	var meta map[string]any
	if err := json.Unmarshal(data, &meta); err != nil {
		fmt.Println("ERROR:", err)
		return 2
	}
	out, reproduced, ran := runReplay(meta["package_dir"].(string), meta["overlay"].(string), meta["test"].(string))
	fmt.Println(out)
	if reproduced {
		fmt.Printf("REPRODUCED obligation=%s\n", meta["obligation"])
		return 1
	}
	if !ran {
		fmt.Println("replay could not run")
		return 2
	}
	fmt.Printf("NOT-REPRODUCED obligation=%s\n", meta["obligation"])
	return 0
}

var _ = token.NoPos

// relaxQuery drops the quantified assumptions of a query (every top-level assert except the last
// one - the negated goal - that contains a quantifier) and asks for a model within a few seconds.
func relaxQuery(smt string) (string, bool) {
	lines := strings.Split(smt, "\n")
	lastAssert := -1
	for i, l := range lines {
		if strings.HasPrefix(l, "(assert ") {
			lastAssert = i
		}
	}
	var out []string
	for i, l := range lines {
		if i != lastAssert && strings.HasPrefix(l, "(assert ") && (strings.Contains(l, "(forall ") || strings.Contains(l, "(exists ")) {
			continue
		}
		out = append(out, l)
	}
	text := strings.Join(out, "\n")
	f, err := os.CreateTemp("", "govc-relax-*.smt2")
	if err != nil {
		return "", false
	}
	defer os.Remove(f.Name())
	f.WriteString(text)
	f.Close()
	cmd := exec.Command("z3-new", "-T:5", f.Name())
	var buf bytes.Buffer
	cmd.Stdout = &buf
	cmd.Run()
	ls := strings.Split(strings.TrimSpace(buf.String()), "\n")
	for _, l := range ls {
		l = strings.TrimSpace(l)
		if strings.HasPrefix(l, "WARNING") {
			continue
		}
		return text, l == "sat"
	}
	return "", false
}
