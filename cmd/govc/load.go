package main

import (
	"fmt"
	"go/ast"
	"go/token"
	"go/types"
	"os"
	"path/filepath"
	"sort"
	"strconv"
	"strings"

	"golang.org/x/tools/go/packages"
)

// repoRoot is the tree under verification. GOVC_REPO points a sub-process of the thorough tier's
// mutation corpus at a scratch copy; every registered command verifies /repo itself.
var repoRoot = func() string {
	if r := os.Getenv("GOVC_REPO"); r != "" {
		return r
	}
	return "/repo"
}()

// Prog is the loaded program: typed ASTs of the target packages and all
// workspace dependencies, plus their contracts.
type Prog struct {
	fset      *token.FileSet
	pkgs      map[string]*packages.Package
	contracts map[string]*PkgContracts
	specs     map[string]*FuncSpec
	decls     map[string]*funcDecl // key -> declaration
	byObj     map[*types.Func]*funcDecl
	loadTime  float64
}

type funcDecl struct {
	key  string
	decl *ast.FuncDecl
	pkg  *packages.Package
	fn   *types.Func
}

func funcKey(f *types.Func) string {
	f = f.Origin()
	pkg := ""
	if f.Pkg() != nil {
		pkg = f.Pkg().Path()
	}
	sig := f.Type().(*types.Signature)
	if recv := sig.Recv(); recv != nil {
		t := types.Unalias(recv.Type())
		if p, ok := t.(*types.Pointer); ok {
			t = types.Unalias(p.Elem())
		}
		if n, ok := t.(*types.Named); ok {
			return pkg + "." + n.Obj().Name() + "." + f.Name()
		}
		return pkg + ".?." + f.Name()
	}
	return pkg + "." + f.Name()
}

func loadEnv() []string {
	env := os.Environ()
	var out []string
	for _, e := range env {
		if strings.HasPrefix(e, "PATH=") || strings.HasPrefix(e, "GOFLAGS=") || strings.HasPrefix(e, "GOTOOLCHAIN=") || strings.HasPrefix(e, "GOPROXY=") || strings.HasPrefix(e, "GOSUMDB=") || strings.HasPrefix(e, "GOWORK=") {
			continue
		}
		out = append(out, e)
	}
	out = append(out, "PATH=/opt/veriftools/go1.26.8/bin:"+os.Getenv("PATH"), "GOFLAGS=-mod=mod", "GOTOOLCHAIN=local", "GOPROXY=off", "GOSUMDB=off", "GOWORK=off")
	return out
}

func rawLoad(dir string, patterns []string, overlay map[string][]byte) ([]*packages.Package, *token.FileSet, error) {
	fset := token.NewFileSet()
	cfg := &packages.Config{
		Mode: packages.NeedName | packages.NeedFiles | packages.NeedSyntax | packages.NeedTypes | packages.NeedTypesInfo | packages.NeedImports | packages.NeedDeps | packages.NeedModule,
		Dir:  dir, BuildFlags: []string{"-tags=verif"}, Env: loadEnv(), Fset: fset, Overlay: overlay,
	}
	pkgs, err := packages.Load(cfg, patterns...)
	return pkgs, fset, err
}

func inRepo(p *packages.Package) bool {
	if len(p.GoFiles) == 0 {
		return false
	}
	return strings.HasPrefix(p.GoFiles[0], repoRoot+"/")
}

func pkgDir(p *packages.Package) string { return filepath.Dir(p.GoFiles[0]) }

// loadProgram loads the packages matched by patterns in module dir, with the
// specification expressions of every contract file type-checked alongside.
func loadProgram(dir string, patterns []string) (*Prog, error) {
	pkgs1, _, err := rawLoad(dir, patterns, nil)
	if err != nil {
		return nil, err
	}
	overlay := map[string][]byte{}
	contracts := map[string]*PkgContracts{}
	var firstErr error
	packages.Visit(pkgs1, nil, func(p *packages.Package) {
		if !inRepo(p) || firstErr != nil {
			return
		}
		pc, err := loadContracts(pkgDir(p), p.PkgPath)
		if err != nil {
			firstErr = err
			return
		}
		if pc == nil {
			return
		}
		contracts[p.PkgPath] = pc
		src, err := genSpecFor(p, pc)
		if err != nil {
			firstErr = err
			return
		}
		overlay[filepath.Join(pkgDir(p), "zz_verif_spec_gen.go")] = []byte(src)
		if os.Getenv("GOVC_DUMP_SPEC") != "" {
			os.WriteFile(filepath.Join(os.Getenv("GOVC_DUMP_SPEC"), sanitize(p.PkgPath)+".go"), []byte(src), 0o644)
		}
	})
	if firstErr != nil {
		return nil, firstErr
	}
	for _, p := range pkgs1 {
		for _, e := range p.Errors {
			return nil, fmt.Errorf("load %s: %v", p.PkgPath, e)
		}
	}
	pkgs2, fset, err := rawLoad(dir, patterns, overlay)
	if err != nil {
		return nil, err
	}
	prog := &Prog{fset: fset, pkgs: map[string]*packages.Package{}, contracts: contracts, specs: map[string]*FuncSpec{}, decls: map[string]*funcDecl{}, byObj: map[*types.Func]*funcDecl{}}
	packages.Visit(pkgs2, nil, func(p *packages.Package) {
		prog.pkgs[p.PkgPath] = p
		if !inRepo(p) {
			return
		}
		for _, e := range p.Errors {
			if strings.Contains(e.Msg, "imported") && strings.Contains(e.Msg, "not used") {
				continue
			}
			if firstErr == nil {
				firstErr = fmt.Errorf("type error (contract or code) in %s: %v", p.PkgPath, e)
			}
		}
		for _, f := range p.Syntax {
			for _, d := range f.Decls {
				fd, ok := d.(*ast.FuncDecl)
				if !ok {
					continue
				}
				fn, _ := p.TypesInfo.Defs[fd.Name].(*types.Func)
				if fn == nil {
					continue
				}
				k := funcKey(fn)
				fdl := &funcDecl{key: k, decl: fd, pkg: p, fn: fn}
				prog.decls[k] = fdl
				prog.byObj[fn] = fdl
			}
		}
	})
	if firstErr != nil {
		return nil, firstErr
	}
	for _, pc := range contracts {
		for _, fs := range pc.Funcs {
			prog.specs[fs.Key] = fs
		}
	}
	return prog, nil
}

// genSpecFor builds the specification file of package p.
func genSpecFor(p *packages.Package, pc *PkgContracts) (string, error) {
	return genSpecForX(p, pc, false)
}

// pkgImportNames: the import names used by the package's own files (path -> name).
func pkgImportNames(p *packages.Package) map[string]string {
	byPath := map[string]string{}
	byName := map[string]string{}
	for _, f := range p.Syntax {
		fn := p.Fset.Position(f.Pos()).Filename
		if strings.HasSuffix(fn, contractFileName) || strings.HasSuffix(fn, "zz_verif_spec_gen.go") {
			continue
		}
		for _, im := range f.Imports {
			path := strings.Trim(im.Path.Value, `"`)
			name := ""
			if im.Name != nil {
				name = im.Name.Name
				if name == "_" || name == "." {
					continue
				}
			} else if ip := p.Imports[path]; ip != nil {
				name = ip.Name
			} else {
				continue
			}
			if _, ok := byPath[path]; ok {
				continue
			}
			if _, clash := byName[name]; clash {
				continue
			}
			byPath[path] = name
			byName[name] = path
		}
	}
	return byPath
}

func genSpecForX(p *packages.Package, pc *PkgContracts, executable bool) (string, error) {
	if pc.PkgName == "" {
		pc.PkgName = p.Name
	}
	byPath := map[string]string{}
	byName := map[string]string{}
	var imports []string
	for _, f := range p.Syntax {
		if fn := p.Fset.Position(f.Pos()).Filename; strings.HasSuffix(fn, contractFileName) || strings.HasSuffix(fn, "zz_verif_spec_gen.go") {
			continue
		}
		for _, im := range f.Imports {
			path := strings.Trim(im.Path.Value, `"`)
			name := ""
			if im.Name != nil {
				name = im.Name.Name
				if name == "_" || name == "." {
					continue
				}
			} else if ip := p.Imports[path]; ip != nil {
				name = ip.Name
			} else {
				continue
			}
			if _, ok := byPath[path]; ok {
				continue
			}
			if _, clash := byName[name]; clash {
				continue
			}
			byPath[path] = name
			byName[name] = path
			imports = append(imports, fmt.Sprintf("%s %q", name, path))
		}
	}
	extra := 0
	qual := func(other *types.Package) string {
		if other == p.Types {
			return ""
		}
		if n, ok := byPath[other.Path()]; ok {
			return n
		}
		extra++
		n := fmt.Sprintf("__p%d", extra)
		byPath[other.Path()] = n
		imports = append(imports, fmt.Sprintf("%s %q", n, other.Path()))
		return n
	}
	// locals visible at loops
	locals := func(fs *FuncSpec, loop int) []localVar {
		fd := findDecl(p, fs)
		if fd == nil || fd.Body == nil {
			return nil
		}
		loops := collectLoops(fd.Body)
		if loop >= len(loops) {
			return nil
		}
		ls := fs.Loops[loop]
		used := map[string]bool{}
		var texts []string
		for _, c := range ls.Invariants {
			texts = append(texts, c.Text)
		}
		if ls.Decreases != nil {
			texts = append(texts, ls.Decreases.Text)
		}
		for _, c := range ls.Modifies {
			texts = append(texts, c.Text)
		}
		for _, t := range texts {
			toks, _ := scanSpec(t)
			for _, tk := range toks {
				if tk.tok == token.IDENT {
					used[tk.lit] = true
				}
			}
		}
		bodyPos := loopBody(loops[loop]).Lbrace
		var out []localVar
		seen := map[string]bool{}
		for _, prm := range fs.allParams() {
			seen[prm.Name] = true
		}
		var objs []*types.Var
		for id, obj := range p.TypesInfo.Defs {
			v, ok := obj.(*types.Var)
			if !ok || v.IsField() || id.Pos() < fd.Pos() || id.Pos() > fd.End() {
				continue
			}
			if !used[v.Name()] || v.Pos() >= bodyPos || v.Parent() == nil || !v.Parent().Contains(bodyPos) {
				continue
			}
			objs = append(objs, v)
		}
		sort.Slice(objs, func(i, j int) bool { return objs[i].Pos() > objs[j].Pos() }) // innermost/latest first
		for _, v := range objs {
			if seen[v.Name()] {
				continue
			}
			seen[v.Name()] = true
			out = append(out, localVar{v.Name(), types.TypeString(v.Type(), qual)})
		}
		sort.Slice(out, func(i, j int) bool { return out[i].Name < out[j].Name })
		return out
	}
	// variables visible to `atcall` clauses: caller locals in scope at the first call of
	// that callee, plus the callee's parameters (bound to the actual arguments)
	pc.atcallVars = func(fs *FuncSpec, callee string) []localVar {
		fd := findDecl(p, fs)
		if fd == nil || fd.Body == nil {
			return nil
		}
		var call *ast.CallExpr
		ast.Inspect(fd.Body, func(n ast.Node) bool {
			if c, ok := n.(*ast.CallExpr); ok && call == nil {
				if id := calleeIdent(c); id != nil && id.Name == callee {
					call = c
				}
			}
			return call == nil
		})
		if call == nil {
			return nil
		}
		used := map[string]bool{}
		for _, c := range fs.AtCalls[callee] {
			toks, _ := scanSpec(c.Text)
			for _, tk := range toks {
				if tk.tok == token.IDENT {
					used[tk.lit] = true
				}
			}
		}
		seen := map[string]bool{}
		for _, prm := range fs.allParams() {
			seen[prm.Name] = true
		}
		var out []localVar
		// callee parameters
		if fn, ok := p.TypesInfo.Uses[calleeIdent(call)].(*types.Func); ok {
			sig := fn.Type().(*types.Signature)
			for i := 0; i < sig.Params().Len(); i++ {
				v := sig.Params().At(i)
				vn := v.Name()
				if vn == "" || vn == "_" {
					vn = fmt.Sprintf("arg%d", i) // unnamed callee parameter: positional name
				}
				if used[vn] && !seen[vn] {
					seen[vn] = true
					out = append(out, localVar{vn, types.TypeString(v.Type(), qual)})
				}
			}
		}
		var objs []*types.Var
		for id, obj := range p.TypesInfo.Defs {
			v, ok := obj.(*types.Var)
			if !ok || v.IsField() || id.Pos() < fd.Pos() || id.Pos() > fd.End() {
				continue
			}
			if !used[v.Name()] || v.Pos() >= call.Pos() || v.Parent() == nil || !v.Parent().Contains(call.Pos()) {
				continue
			}
			objs = append(objs, v)
		}
		sort.Slice(objs, func(i, j int) bool { return objs[i].Pos() > objs[j].Pos() })
		for _, v := range objs {
			if seen[v.Name()] {
				continue
			}
			seen[v.Name()] = true
			out = append(out, localVar{v.Name(), types.TypeString(v.Type(), qual)})
		}
		return out
	}
	pc.assertVars = func(fs *FuncSpec, ab *AssertBefore) []localVar {
		fd := findDecl(p, fs)
		if fd == nil || fd.Body == nil {
			return nil
		}
		anchor := findAnchorStmt(p.Fset, fd, ab.Anchor)
		if anchor == nil {
			// anchor text not found (the code changed): make every local of the function visible so
			// that the clause still type-checks; the verifier then reports the missing anchor
			used := map[string]bool{}
			toks, _ := scanSpec(ab.Clause.Text)
			for _, tk := range toks {
				if tk.tok == token.IDENT {
					used[tk.lit] = true
				}
			}
			seen := map[string]bool{}
			for _, prm := range fs.allParams() {
				seen[prm.Name] = true
			}
			var out []localVar
			var ids []*ast.Ident
			for id := range p.TypesInfo.Defs {
				ids = append(ids, id)
			}
			sort.Slice(ids, func(i, j int) bool { return ids[i].Pos() < ids[j].Pos() })
			for _, id := range ids {
				v, ok := p.TypesInfo.Defs[id].(*types.Var)
				if !ok || v.IsField() || id.Pos() < fd.Pos() || id.Pos() > fd.End() || !used[v.Name()] || seen[v.Name()] {
					continue
				}
				seen[v.Name()] = true
				out = append(out, localVar{v.Name(), types.TypeString(v.Type(), qual)})
			}
			return out
		}
		used := map[string]bool{}
		toks, _ := scanSpec(ab.Clause.Text)
		for _, tk := range toks {
			if tk.tok == token.IDENT {
				used[tk.lit] = true
			}
		}
		seen := map[string]bool{}
		for _, prm := range fs.allParams() {
			seen[prm.Name] = true
		}
		var objs []*types.Var
		for id, obj := range p.TypesInfo.Defs {
			v, ok := obj.(*types.Var)
			if !ok || v.IsField() || id.Pos() < fd.Pos() || id.Pos() > fd.End() {
				continue
			}
			at := anchor.Pos()
			if ab.After {
				at = anchor.End()
			}
			if !used[v.Name()] || v.Pos() >= at || v.Parent() == nil || !(v.Parent().Contains(at) || v.Parent().End() == at) {
				continue
			}
			objs = append(objs, v)
		}
		sort.Slice(objs, func(i, j int) bool { return objs[i].Pos() > objs[j].Pos() })
		var out []localVar
		for _, v := range objs {
			if seen[v.Name()] {
				continue
			}
			seen[v.Name()] = true
			out = append(out, localVar{v.Name(), types.TypeString(v.Type(), qual)})
		}
		return out
	}
	// first pass to discover extra imports needed by local types
	if _, err := pc.genSpecFileX(imports, locals, executable); err != nil {
		return "", err
	}
	return pc.genSpecFileX(imports, locals, executable)
}

func findDecl(p *packages.Package, fs *FuncSpec) *ast.FuncDecl {
	for _, f := range p.Syntax {
		for _, d := range f.Decls {
			fd, ok := d.(*ast.FuncDecl)
			if !ok || fd.Name.Name != fs.Name {
				continue
			}
			fn, _ := p.TypesInfo.Defs[fd.Name].(*types.Func)
			if fn != nil && funcKey(fn) == fs.Key {
				return fd
			}
		}
	}
	return nil
}

// collectLoops lists the for/range statements of a body in source order,
// including those in nested function literals.
func collectLoops(body *ast.BlockStmt) []ast.Stmt {
	var out []ast.Stmt
	ast.Inspect(body, func(n ast.Node) bool {
		switch n.(type) {
		case *ast.ForStmt, *ast.RangeStmt:
			out = append(out, n.(ast.Stmt))
		}
		return true
	})
	return out
}

func loopBody(s ast.Stmt) *ast.BlockStmt {
	switch s := s.(type) {
	case *ast.ForStmt:
		return s.Body
	case *ast.RangeStmt:
		return s.Body
	}
	return nil
}

// findAnchorStmt: the first (innermost simple) statement of fd whose source text contains anchor.
func findAnchorStmt(fset *token.FileSet, fd *ast.FuncDecl, anchor string) ast.Stmt {
	p0 := fset.Position(fd.Pos())
	data, err := os.ReadFile(p0.Filename)
	if err != nil {
		return nil
	}
	// "text#N": the N-th (1-based, source order) of the minimal statements containing text
	nth := 0
	if k := strings.LastIndex(anchor, "#"); k > 0 {
		if n, err := strconv.Atoi(anchor[k+1:]); err == nil && n > 0 {
			nth, anchor = n, anchor[:k]
		}
	}
	type cand struct {
		st   ast.Stmt
		a, b int
	}
	var cands []cand
	ast.Inspect(fd.Body, func(n ast.Node) bool {
		st, ok := n.(ast.Stmt)
		if !ok {
			return true
		}
		switch st.(type) {
		case *ast.AssignStmt, *ast.ExprStmt, *ast.ReturnStmt, *ast.IncDecStmt, *ast.DeclStmt, *ast.DeferStmt, *ast.GoStmt, *ast.BranchStmt:
			a, b := fset.Position(st.Pos()).Offset, fset.Position(st.End()).Offset
			if a >= 0 && b <= len(data) && strings.Contains(string(data[a:b]), anchor) {
				cands = append(cands, cand{st, a, b})
			}
		}
		return true
	})
	if nth > 0 {
		// minimal candidates only (no other candidate nested inside), in source order
		var mins []cand
		for _, c := range cands {
			minimal := true
			for _, d := range cands {
				if d.st != c.st && d.a >= c.a && d.b <= c.b {
					minimal = false
				}
			}
			if minimal {
				mins = append(mins, c)
			}
		}
		sort.Slice(mins, func(i, j int) bool { return mins[i].a < mins[j].a })
		if nth <= len(mins) {
			return mins[nth-1].st
		}
		return nil
	}
	// default: the smallest statement containing the anchor; among equals the first
	var found ast.Stmt
	best := -1
	for _, c := range cands {
		if best < 0 || c.b-c.a < best {
			found, best = c.st, c.b-c.a
		}
	}
	return found
}
