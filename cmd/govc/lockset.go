package main

import (
	"fmt"
	"go/ast"
	"go/token"
	"go/types"
	"sort"
	"strings"

	"golang.org/x/tools/go/packages"
)

// Lockset discipline (C09): fields declared guarded_by a lock may only be read with the
// lock held (read or write mode) and written with it held in write mode, on every path
// of every function of the package. Decided by a must-hold flow analysis over the typed
// AST (no SMT); by the lockset theorem this gives data-race freedom on those fields for
// every interleaving. lock_order declarations are checked at each acquisition.

type guardDecl struct {
	typ  string   // owning named struct type
	path []string // field path from the owner to the guarded field
	lock string   // lock path suffix relative to the owner ("" = the owner embeds the mutex)
	line int
}

type heldDecl struct {
	typ, method, lock, mode string
	during                  bool // lock is held while the function-typed argument runs
	returns                 bool // returns_held: the function returns with the lock held and hands its release to a closure it returns
}

type orderDecl struct{ before, after string } // "Type.suffix"

type LockSpec struct {
	guards   []guardDecl
	held     []heldDecl
	orders   []orderDecl
	unshared map[string]string // function key suffix -> justification
	aliases  []string          // path fragments that lead back to the owner (".indexPersist.idx"): removed from lock paths
}

func parseLockClauses(pc *PkgContracts, clauses []rawClause) error {
	ls := &LockSpec{unshared: map[string]string{}}
	for _, c := range clauses {
		f := strings.Fields(c.text)
		switch c.kw {
		case "guarded_by":
			if len(f) != 2 {
				return fmt.Errorf("%s:%d: guarded_by <Type.field.path> <lock suffix or .>", pc.Dir, c.line)
			}
			parts := strings.Split(f[0], ".")
			lock := f[1]
			if lock == "." {
				lock = ""
			}
			ls.guards = append(ls.guards, guardDecl{typ: parts[0], path: parts[1:], lock: lock, line: c.line})
		case "requires_held", "holds_during", "returns_held":
			if len(f) < 2 {
				return fmt.Errorf("%s:%d: %s <Type.method> <lock suffix or .> [R|W]", pc.Dir, c.line, c.kw)
			}
			tm := strings.SplitN(f[0], ".", 2)
			if len(tm) != 2 {
				// plain function: the lock is named through a parameter, e.g. "idx.mu"
				tm = []string{"", f[0]}
			}
			lock := f[1]
			if lock == "." {
				lock = ""
			}
			mode := "R"
			if len(f) > 2 {
				mode = f[2]
			}
			ls.held = append(ls.held, heldDecl{typ: tm[0], method: tm[1], lock: lock, mode: mode, during: c.kw == "holds_during", returns: c.kw == "returns_held"})
		case "lock_order":
			// lock_order A.suffix < B.suffix  (A must be taken before B)
			if len(f) != 3 || f[1] != "<" {
				return fmt.Errorf("%s:%d: lock_order <Type.suffix> < <Type.suffix>", pc.Dir, c.line)
			}
			ls.orders = append(ls.orders, orderDecl{strings.TrimSuffix(f[0], "."), strings.TrimSuffix(f[2], ".")})
		case "lock_alias":
			if len(f) != 1 {
				return fmt.Errorf("%s:%d: lock_alias <.field.backpointer>", pc.Dir, c.line)
			}
			ls.aliases = append(ls.aliases, f[0])
		case "unshared":
			if len(f) < 1 {
				return fmt.Errorf("%s:%d: unshared <function> <why>", pc.Dir, c.line)
			}
			ls.unshared[f[0]] = strings.Join(f[1:], " ")
		}
	}
	pc.Locks = ls
	return nil
}

type heldLock struct {
	path  string // printed expression of the lock, e.g. "idx.mu" or "r"
	key   string // type-level identity "index.mu" for ordering
	mode  string // "R" or "W"
	entry bool   // held on entry by contract (requires_held): not this function's to release
}

type lockState struct {
	held []heldLock
	dead bool
}

func (s lockState) clone() lockState {
	return lockState{held: append([]heldLock(nil), s.held...), dead: s.dead}
}

var lockAliases []string

func normLockPath(p string) string {
	for _, a := range lockAliases {
		p = strings.ReplaceAll(p, a, "")
	}
	return p
}

func (s lockState) find(path string) (heldLock, bool) {
	path = normLockPath(path)
	for _, h := range s.held {
		if h.path == path {
			return h, true
		}
	}
	return heldLock{}, false
}

func joinLock(a, b lockState) lockState {
	if a.dead {
		return b
	}
	if b.dead {
		return a
	}
	var out []heldLock
	for _, h := range a.held {
		if o, ok := b.find(h.path); ok {
			m := h.mode
			if o.mode == "R" {
				m = "R"
			}
			out = append(out, heldLock{h.path, h.key, m, h.entry && o.entry})
		}
	}
	return lockState{held: out}
}

type lockChecker struct {
	acquired        bool
	deferredUnlocks map[string]bool
	prog            *Prog
	pkg             *packages.Package
	spec            *LockSpec
	obls            []*Obligation
	fname           string
	ord             map[string]int
	deferred        []func(st *lockState)
	handedOff       map[string]bool // lock keys ("Type.suffix") this function returns with held by contract (returns_held)
}

// localAliases: expression path -> local variable that holds the same pointer
// (f, ok := m[k]; for k, f := range m). Reset per function.
var localAliases = map[string]string{}

func exprPath(e ast.Expr) string {
	p := exprPathRaw(e)
	for from, to := range localAliases {
		if p == from {
			return to
		}
		if strings.HasPrefix(p, from+".") {
			return to + p[len(from):]
		}
	}
	return p
}

func exprPathRaw(e ast.Expr) string {
	switch x := ast.Unparen(e).(type) {
	case *ast.IndexExpr:
		b := exprPathRaw(x.X)
		i := exprPathRaw(x.Index)
		if b == "" || i == "" {
			return ""
		}
		return b + "[" + i + "]"
	case *ast.BasicLit:
		return x.Value
	case *ast.Ident:
		return x.Name
	case *ast.SelectorExpr:
		p := exprPathRaw(x.X)
		if p == "" {
			return ""
		}
		return p + "." + x.Sel.Name
	case *ast.StarExpr:
		return exprPathRaw(x.X)
	}
	return ""
}

func namedOf(t types.Type) *types.Named {
	t = types.Unalias(t)
	if p, ok := t.(*types.Pointer); ok {
		t = types.Unalias(p.Elem())
	}
	n, _ := t.(*types.Named)
	return n
}

// guardedAccess: if e (a field selector) denotes a guarded field, returns the guard,
// the printed base expression of the owner and true.
func (lc *lockChecker) guardedAccess(e *ast.SelectorExpr) (guardDecl, string, bool) {
	info := lc.pkg.TypesInfo
	sel := info.Selections[e]
	if sel == nil || sel.Kind() != types.FieldVal {
		return guardDecl{}, "", false
	}
	// collect the field names walking towards the root until a named struct owner is found
	var path []string
	var cur ast.Expr = e
	for {
		se, ok := ast.Unparen(cur).(*ast.SelectorExpr)
		if !ok {
			return guardDecl{}, "", false
		}
		s := info.Selections[se]
		if s == nil || s.Kind() != types.FieldVal {
			return guardDecl{}, "", false
		}
		path = append([]string{se.Sel.Name}, path...)
		owner := namedOf(info.TypeOf(se.X))
		if owner != nil {
			for _, g := range lc.spec.guards {
				if g.typ == owner.Obj().Name() && owner.Obj().Pkg() == lc.pkg.Types && strings.Join(g.path, ".") == strings.Join(path, ".") {
					return g, exprPath(se.X), true
				}
			}
			return guardDecl{}, "", false
		}
		cur = se.X
	}
}

func (lc *lockChecker) report(kind, label string, ok bool, pos token.Pos, human string) {
	n := lc.ord[kind+label]
	lc.ord[kind+label]++
	name := fmt.Sprintf("%s#%s:%s:%d", lc.fname, kind, label, n)
	o := &Obligation{Name: name, Kind: kind, Func: lc.fname, Goal: human, Expect: "unsat", Solver: "lockset"}
	ps := lc.prog.fset.Position(pos)
	o.Pos = fmt.Sprintf("%s:%d", strings.TrimPrefix(ps.Filename, repoRoot+"/"), ps.Line)
	if ok {
		o.Result = "unsat"
	} else {
		o.Result = "lockset-violation"
		o.Output = human + " at " + o.Pos
	}
	lc.obls = append(lc.obls, o)
}

// isMutexCall: P.Lock()/RLock()/Unlock()/RUnlock() on a sync mutex; returns P and the method.
func (lc *lockChecker) isMutexCall(call *ast.CallExpr) (string, ast.Expr, string, bool) {
	se, ok := ast.Unparen(call.Fun).(*ast.SelectorExpr)
	if !ok {
		return "", nil, "", false
	}
	fn, ok := lc.pkg.TypesInfo.Uses[se.Sel].(*types.Func)
	if !ok {
		return "", nil, "", false
	}
	k := funcKey(fn)
	switch k {
	case "sync.RWMutex.Lock", "sync.RWMutex.Unlock", "sync.RWMutex.RLock", "sync.RWMutex.RUnlock", "sync.Mutex.Lock", "sync.Mutex.Unlock":
		return exprPath(se.X), se.X, fn.Name(), true
	}
	return "", nil, "", false
}

// lockKey: type-level identity of a lock expression: OwnerType.suffix
func (lc *lockChecker) lockKey(e ast.Expr) string {
	var suffix []string
	cur := ast.Unparen(e)
	for {
		if n := namedOf(lc.pkg.TypesInfo.TypeOf(cur)); n != nil && n.Obj().Pkg() == lc.pkg.Types {
			return strings.TrimSuffix(n.Obj().Name()+"."+strings.Join(suffix, "."), ".")
		}
		se, ok := cur.(*ast.SelectorExpr)
		if !ok {
			return ""
		}
		suffix = append([]string{se.Sel.Name}, suffix...)
		cur = ast.Unparen(se.X)
	}
}

func (lc *lockChecker) acquire(st *lockState, path string, e ast.Expr, mode string, pos token.Pos) {
	key := lc.lockKey(e)
	for _, h := range st.held {
		for _, o := range lc.spec.orders {
			// acquiring `key` while holding h.key: forbidden when key must come before h.key
			if o.before == key && o.after == h.key {
				lc.report("lockorder", key, false, pos, fmt.Sprintf("lock %s (%s) acquired while %s (%s) is held, but the declared order is %s < %s", path, key, h.path, h.key, o.before, o.after))
			}
		}
	}
	for _, o := range lc.spec.orders {
		if o.before == key || o.after == key {
			held := false
			for _, h := range st.held {
				if o.before == key && o.after == h.key {
					held = true
				}
			}
			if !held {
				lc.report("lockorder", key, true, pos, "acquisition of "+key+" respects the declared lock order")
			}
			break
		}
	}
	st.held = append(st.held, heldLock{normLockPath(path), key, mode, false})
	lc.acquired = true
}

func (lc *lockChecker) release(st *lockState, path string) {
	path = normLockPath(path)
	for i := len(st.held) - 1; i >= 0; i-- {
		if st.held[i].path == path {
			st.held = append(st.held[:i], st.held[i+1:]...)
			return
		}
	}
}

// scanExpr checks guarded accesses inside an expression (reads unless inWrite).
func (lc *lockChecker) scanExpr(e ast.Expr, st *lockState, write bool) {
	if e == nil {
		return
	}
	ast.Inspect(e, func(n ast.Node) bool {
		switch x := n.(type) {
		case *ast.FuncLit:
			// analysed where it is invoked / with the state at definition
			body := st.clone()
			for i := range body.held {
				body.held[i].entry = true // the enclosing function's locks are not the closure's to release
			}
			lc.block(x.Body.List, &body)
			return false
		case *ast.CallExpr:
			lc.call(x, st)
			return false
		case *ast.SelectorExpr:
			if g, base, ok := lc.guardedAccess(x); ok {
				lockPath := base
				if g.lock != "" {
					lockPath = base + "." + g.lock
				}
				h, held := st.find(lockPath)
				field := g.typ + "." + strings.Join(g.path, ".")
				if write {
					lc.report("guard", field, held && h.mode == "W", x.Pos(), fmt.Sprintf("write of %s needs %s held for writing", exprPath(x), lockPath))
				} else {
					lc.report("guard", field, held, x.Pos(), fmt.Sprintf("read of %s needs %s held", exprPath(x), lockPath))
				}
				// do not descend: the inner selectors are the path to this field
				lc.scanExpr(baseOf(x, len(g.path)), st, false)
				return false
			}
		}
		return true
	})
}

// baseOf strips n field selections from e.
func baseOf(e ast.Expr, n int) ast.Expr {
	cur := ast.Expr(e)
	for i := 0; i < n; i++ {
		se, ok := ast.Unparen(cur).(*ast.SelectorExpr)
		if !ok {
			return nil
		}
		cur = se.X
	}
	return cur
}

func (lc *lockChecker) call(call *ast.CallExpr, st *lockState) {
	if path, e, m, ok := lc.isMutexCall(call); ok {
		switch m {
		case "Lock":
			lc.acquire(st, path, e, "W", call.Pos())
		case "RLock":
			lc.acquire(st, path, e, "R", call.Pos())
		case "Unlock", "RUnlock":
			lc.release(st, path)
		}
		return
	}
	// callee preconditions / helpers
	if se, ok := ast.Unparen(call.Fun).(*ast.SelectorExpr); ok {
		if fn, ok := lc.pkg.TypesInfo.Uses[se.Sel].(*types.Func); ok {
			if recv := fn.Type().(*types.Signature).Recv(); recv != nil {
				n := namedOf(recv.Type())
				if n != nil && fn.Pkg() != lc.pkg.Types {
					n = nil
				}
				// a method promoted from an embedded field (possibly of another package) is declared
				// under the static type of the receiver expression: `requires_held core.CopyState mu W`
				if xt := lc.pkg.TypesInfo.TypeOf(se.X); xt != nil {
					if xn := namedOf(xt); xn != nil && xn.Obj().Pkg() == lc.pkg.Types && (n == nil || xn.Obj().Name() != n.Obj().Name()) {
						for _, h := range lc.spec.held {
							if h.typ == xn.Obj().Name() && h.method == fn.Name() {
								n = xn
							}
						}
					}
				}
				if n != nil {
					for _, h := range lc.spec.held {
						if h.typ != n.Obj().Name() || h.method != fn.Name() || h.returns {
							continue
						}
						base := exprPath(se.X)
						lockPath := base
						if h.lock != "" {
							lockPath = base + "." + h.lock
						}
						if h.during {
							// the function-typed arguments run with the lock held
							lc.scanExpr(se.X, st, false)
							inner := st.clone()
							inner.held = append(inner.held, heldLock{lockPath, n.Obj().Name() + "." + h.lock, h.mode, true})
							for _, a := range call.Args {
								if lit, ok := ast.Unparen(a).(*ast.FuncLit); ok {
									lc.block(lit.Body.List, &inner)
								} else {
									lc.scanExpr(a, st, false)
								}
							}
							return
						}
						hl, held := st.find(lockPath)
						okMode := held && (h.mode == "R" || hl.mode == "W")
						lc.report("held", n.Obj().Name()+"."+fn.Name(), okMode, call.Pos(), fmt.Sprintf("call of %s needs %s held (%s)", fn.Name(), lockPath, h.mode))
					}
				}
			}
		}
	}
	if id, ok := ast.Unparen(call.Fun).(*ast.Ident); ok {
		if fn, ok := lc.pkg.TypesInfo.Uses[id].(*types.Func); ok && fn.Pkg() == lc.pkg.Types {
			sig := fn.Type().(*types.Signature)
			for _, h := range lc.spec.held {
				if h.typ != "" || h.method != fn.Name() {
					continue
				}
				// substitute the parameter that roots the lock path by the argument
				root := strings.SplitN(h.lock, ".", 2)
				lockPath := ""
				for i := 0; i < sig.Params().Len() && i < len(call.Args); i++ {
					if sig.Params().At(i).Name() == root[0] {
						lockPath = exprPath(call.Args[i])
						if len(root) > 1 {
							lockPath += "." + root[1]
						}
					}
				}
				hl, held := st.find(lockPath)
				okMode := lockPath != "" && held && (h.mode == "R" || hl.mode == "W")
				lc.report("held", fn.Name(), okMode, call.Pos(), fmt.Sprintf("call of %s needs %s held (%s)", fn.Name(), lockPath, h.mode))
			}
		}
	}
	lc.scanExpr(call.Fun, st, false)
	for _, a := range call.Args {
		lc.scanExpr(a, st, false)
	}
}

func (lc *lockChecker) block(stmts []ast.Stmt, st *lockState) {
	for _, s := range stmts {
		if st.dead {
			return
		}
		lc.stmt(s, st)
	}
}

func (lc *lockChecker) stmt(s ast.Stmt, st *lockState) {
	switch s := s.(type) {
	case *ast.ExprStmt:
		lc.scanExpr(s.X, st, false)
		if call, ok := s.X.(*ast.CallExpr); ok {
			if id, ok := call.Fun.(*ast.Ident); ok && id.Name == "panic" {
				st.dead = true
			}
		}
	case *ast.AssignStmt:
		for _, r := range s.Rhs {
			lc.scanExpr(r, st, false)
		}
		if s.Tok == token.DEFINE && len(s.Rhs) == 1 {
			if ix, ok := ast.Unparen(s.Rhs[0]).(*ast.IndexExpr); ok {
				if id, ok := s.Lhs[0].(*ast.Ident); ok && id.Name != "_" {
					if t := lc.pkg.TypesInfo.TypeOf(ix); t != nil {
						if tup, ok := t.(*types.Tuple); ok && tup.Len() > 0 {
							t = tup.At(0).Type()
						}
						if _, isPtr := t.Underlying().(*types.Pointer); isPtr {
							if p := exprPathRaw(ix); p != "" {
								localAliases[p] = id.Name
							}
						}
					}
				}
			}
		}
		for _, l := range s.Lhs {
			lc.scanLHS(l, st)
		}
	case *ast.IncDecStmt:
		lc.scanLHS(s.X, st)
	case *ast.DeclStmt:
		if gd, ok := s.Decl.(*ast.GenDecl); ok {
			for _, sp := range gd.Specs {
				if vs, ok := sp.(*ast.ValueSpec); ok {
					for _, v := range vs.Values {
						lc.scanExpr(v, st, false)
					}
				}
			}
		}
	case *ast.ReturnStmt:
		for _, r := range s.Results {
			lc.scanExpr(r, st, false)
		}
		lc.checkLeaks(st, s.Pos())
		st.dead = true
	case *ast.BlockStmt:
		lc.block(s.List, st)
	case *ast.IfStmt:
		if s.Init != nil {
			lc.stmt(s.Init, st)
		}
		lc.scanExpr(s.Cond, st, false)
		a := st.clone()
		lc.block(s.Body.List, &a)
		b := st.clone()
		if s.Else != nil {
			lc.stmt(s.Else, &b)
		}
		*st = joinLock(a, b)
		if a.dead && b.dead {
			st.dead = true
		}
	case *ast.ForStmt:
		if s.Init != nil {
			lc.stmt(s.Init, st)
		}
		lc.scanExpr(s.Cond, st, false)
		body := st.clone()
		lc.block(s.Body.List, &body)
		if s.Post != nil && !body.dead {
			lc.stmt(s.Post, &body)
		}
		if !body.dead {
			*st = joinLock(*st, body)
		}
	case *ast.RangeStmt:
		lc.scanExpr(s.X, st, false)
		if k, ok := s.Key.(*ast.Ident); ok && s.Value != nil {
			if v, ok := s.Value.(*ast.Ident); ok && v.Name != "_" && k.Name != "_" {
				if t := lc.pkg.TypesInfo.TypeOf(v); t != nil {
					if _, isPtr := t.Underlying().(*types.Pointer); isPtr {
						if p := exprPathRaw(s.X); p != "" {
							localAliases[p+"["+k.Name+"]"] = v.Name
						}
					}
				}
			}
		}
		body := st.clone()
		lc.block(s.Body.List, &body)
		if !body.dead {
			*st = joinLock(*st, body)
		}
	case *ast.SwitchStmt:
		if s.Init != nil {
			lc.stmt(s.Init, st)
		}
		lc.scanExpr(s.Tag, st, false)
		out := lockState{dead: true}
		hasDefault := false
		for _, c := range s.Body.List {
			cc := c.(*ast.CaseClause)
			if cc.List == nil {
				hasDefault = true
			}
			for _, e := range cc.List {
				lc.scanExpr(e, st, false)
			}
			b := st.clone()
			lc.block(cc.Body, &b)
			out = joinLock(out, b)
		}
		if !hasDefault {
			out = joinLock(out, *st)
		}
		*st = out
	case *ast.TypeSwitchStmt:
		for _, c := range s.Body.List {
			b := st.clone()
			lc.block(c.(*ast.CaseClause).Body, &b)
		}
	case *ast.SelectStmt:
		for _, c := range s.Body.List {
			b := st.clone()
			lc.block(c.(*ast.CommClause).Body, &b)
		}
	case *ast.DeferStmt:
		// deferred unlocks keep the lock held until the function returns; other deferred
		// work is analysed with the locks held at the defer statement
		if path, _, m, ok := lc.isMutexCall(s.Call); ok && (m == "Unlock" || m == "RUnlock") {
			lc.deferUnlock(path)
			return
		}
		if lit, ok := ast.Unparen(s.Call.Fun).(*ast.FuncLit); ok {
			ast.Inspect(lit.Body, func(n ast.Node) bool {
				if c, ok := n.(*ast.CallExpr); ok {
					if path, _, m, ok := lc.isMutexCall(c); ok && (m == "Unlock" || m == "RUnlock") {
						lc.deferUnlock(path)
					}
				}
				return true
			})
			b := st.clone()
			for i := range b.held {
				b.held[i].entry = true
			}
			// unlocks inside a deferred closure run at exit: analyse its other statements with the lock held
			lc.block(lit.Body.List, &b)
			return
		}
		lc.scanExpr(s.Call, st, false)
	case *ast.GoStmt:
		empty := lockState{}
		if lit, ok := ast.Unparen(s.Call.Fun).(*ast.FuncLit); ok {
			lc.block(lit.Body.List, &empty)
		} else {
			lc.scanExpr(s.Call, &empty, false)
		}
	case *ast.LabeledStmt:
		lc.stmt(s.Stmt, st)
	case *ast.SendStmt:
		lc.scanExpr(s.Chan, st, false)
		lc.scanExpr(s.Value, st, false)
	case *ast.BranchStmt:
		// break/continue: the state flows to a join handled conservatively by the loop rule
	}
}

func (lc *lockChecker) scanLHS(l ast.Expr, st *lockState) {
	switch x := ast.Unparen(l).(type) {
	case *ast.SelectorExpr:
		if _, _, ok := lc.guardedAccess(x); ok {
			lc.scanExpr(x, st, true)
			return
		}
		lc.scanExpr(x.X, st, false)
	case *ast.IndexExpr:
		// writing an element of a guarded slice/map is a write of the guarded field
		if se, ok := ast.Unparen(x.X).(*ast.SelectorExpr); ok {
			if _, _, ok := lc.guardedAccess(se); ok {
				lc.scanExpr(se, st, true)
				lc.scanExpr(x.Index, st, false)
				return
			}
		}
		lc.scanExpr(x.X, st, false)
		lc.scanExpr(x.Index, st, false)
	case *ast.StarExpr:
		lc.scanExpr(x.X, st, false)
	}
}

// runLockset checks every function of the packages that declare lock contracts.
func runLockset(prog *Prog, pf *PropFile) []*Obligation {
	var out []*Obligation
	want := map[string]bool{}
	for _, p := range pf.Lockset {
		want[p] = true
	}
	var paths []string
	for pp := range prog.contracts {
		paths = append(paths, pp)
	}
	sort.Strings(paths)
	for _, pp := range paths {
		pc := prog.contracts[pp]
		if pc.Locks == nil || (len(pc.Locks.guards) == 0 && len(pc.Locks.held) == 0) || !want[shortName(pp)] {
			continue
		}
		pkg := prog.pkgs[pp]
		lockAliases = pc.Locks.aliases
		for _, f := range pkg.Syntax {
			fn := prog.fset.Position(f.Pos()).Filename
			if strings.HasSuffix(fn, "_test.go") || strings.HasSuffix(fn, "zz_verif_spec_gen.go") || strings.HasSuffix(fn, contractFileName) {
				continue
			}
			for _, d := range f.Decls {
				fd, ok := d.(*ast.FuncDecl)
				if !ok || fd.Body == nil {
					continue
				}
				obj, _ := pkg.TypesInfo.Defs[fd.Name].(*types.Func)
				if obj == nil {
					continue
				}
				key := shortName(funcKey(obj))
				name := fd.Name.Name
				if r := obj.Type().(*types.Signature).Recv(); r != nil {
					if n := namedOf(r.Type()); n != nil {
						name = n.Obj().Name() + "." + name
					}
				}
				if _, skip := pc.Locks.unshared[name]; skip {
					continue
				}
				localAliases = map[string]string{}
				lc := &lockChecker{prog: prog, pkg: pkg, spec: pc.Locks, fname: key, ord: map[string]int{}, handedOff: map[string]bool{}}
				if r := obj.Type().(*types.Signature).Recv(); r != nil {
					if n := namedOf(r.Type()); n != nil {
						for _, h := range pc.Locks.held {
							if h.returns && h.typ == n.Obj().Name() && h.method == fd.Name.Name {
								lc.handedOff[n.Obj().Name()+"."+h.lock] = true
							}
						}
					}
				}
				st := lockState{}
				// locks the contract says are held on entry
				if r := obj.Type().(*types.Signature).Recv(); r != nil && fd.Recv != nil && len(fd.Recv.List) == 1 && len(fd.Recv.List[0].Names) == 1 {
					if n := namedOf(r.Type()); n != nil {
						for _, h := range pc.Locks.held {
							if h.typ == n.Obj().Name() && h.method == fd.Name.Name && !h.during && !h.returns {
								base := fd.Recv.List[0].Names[0].Name
								lp := base
								if h.lock != "" {
									lp = base + "." + h.lock
								}
								st.held = append(st.held, heldLock{normLockPath(lp), n.Obj().Name() + "." + h.lock, h.mode, true})
							}
						}
					}
				}
				if fd.Recv == nil {
					for _, h := range pc.Locks.held {
						if h.typ == "" && h.method == fd.Name.Name && !h.during && !h.returns {
							st.held = append(st.held, heldLock{h.lock, h.lock, h.mode, true})
						}
					}
				}
				lc.block(fd.Body.List, &st)
				lc.checkLeaks(&st, fd.Body.Rbrace)
				out = append(out, lc.obls...)
			}
		}
	}
	return out
}

// ---------------------------------------------------------------- lock leaks

func (lc *lockChecker) deferUnlock(path string) {
	if lc.deferredUnlocks == nil {
		lc.deferredUnlocks = map[string]bool{}
	}
	lc.deferredUnlocks[normLockPath(path)] = true
}

// checkLeaks: at a return (or the end of the body) every lock this function acquired has been
// released or has a deferred unlock. A lock that stays held blocks every later writer forever.
func (lc *lockChecker) checkLeaks(st *lockState, pos token.Pos) {
	if !lc.acquired || st.dead {
		return
	}
	leaked := ""
	for _, h := range st.held {
		if lc.handedOff[h.key] {
			continue // returns_held: released by the closure the function returns
		}
		if h.entry || lc.deferredUnlocks[h.path] {
			continue
		}
		leaked = h.path
	}
	if leaked != "" {
		lc.report("leak", leaked, false, pos, "lock "+leaked+" is still held at this return (no unlock on this path, no deferred unlock)")
	} else {
		lc.report("leak", "return", true, pos, "every lock acquired in this function is released or has a deferred unlock at this return")
	}
}
