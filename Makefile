GOENV = PATH=/opt/veriftools/go1.26.8/bin:$$PATH GOTOOLCHAIN=local GOFLAGS=-mod=mod GOPROXY=off GOSUMDB=off
setup: bin/govc
bin/govc: $(wildcard cmd/govc/*.go) go.mod
	mkdir -p bin
	$(GOENV) go build -o bin/govc ./cmd/govc
.PHONY: setup
