#!/bin/bash
# seedtest.sh <variant> <id>...: applies seeded/<id>/<variant>/patch.diff to a scratch copy of /repo's
# working tree (under /dev/shm, removed afterwards) and runs the property's quick check on the copy;
# prints CAUGHT/MISSED per seed. All ids run in parallel.
cd /verif; v=$1; shift
for id in "$@"; do (
  scratch=$(mktemp -d /dev/shm/seedtest-$id-XXXX)
  rsync -a --exclude .git --exclude node_modules /repo/ $scratch/
  p=seeded/$id/$v/patch.diff
  (cd $scratch && git apply /verif/$p) || echo "NOAPPLY $id"
  out=$(GOVC_FAIL_FAST=1 GOVC_REPO=$scratch ./bin/govc check --property $id --tier quick 2>&1); rc=$?
  if [ $rc -eq 1 ]; then echo "CAUGHT $id $p :: $(echo "$out" | grep -m1 VIOLATION | sed 's/.*obligation=//' | cut -c1-140)"; else echo "MISSED $id $p (exit $rc) :: $(echo "$out" | tail -1 | cut -c1-160)"; fi
  rm -rf $scratch ) &
done; wait
