#!/bin/bash
# usage: tools/mkmutant.sh <property> <name> <file-rel-to-repo> <perl-substitution e.g. 's/a/b/'>
# Creates /verif/mutants/<property>/<name>.patch from a one-off edit of /repo (reverted afterwards).
set -e
id=$1; name=$2; f=$3; e=$4
if [ -n "$(git -C /repo status --porcelain --untracked-files=no)" ]; then echo "refusing: /repo dirty"; exit 2; fi
perl -0pi -e "$e" /repo/$f
if [ -z "$(git -C /repo diff --stat)" ]; then echo "mutation did not apply: $name"; exit 1; fi
mkdir -p /verif/mutants/$id
git -C /repo diff > /verif/mutants/$id/$name.patch
git -C /repo checkout -- .
(cd /repo/$(echo $f | cut -d/ -f1) 2>/dev/null || true)
echo "created mutants/$id/$name.patch"
