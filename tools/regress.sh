#!/bin/bash
# run all claimed quick checks in parallel (4 at a time), print summary lines
cd /verif
ids=$(python3 -c "import json;print(' '.join(c['property'] for c in json.load(open('MANIFEST.json'))['checks']))" 2>/dev/null)
[ -z "$ids" ] && ids=$(ls props | sed 's/.json//')
for i in $ids; do echo $i; done | xargs -P 4 -I{} sh -c './bin/govc check --property {} --tier quick > /dev/shm/reg_{}.log 2>&1; echo "{} exit=$? $(tail -1 /dev/shm/reg_{}.log)"'
