#!/usr/bin/env python3
# merge /dev/shm/selftest_run.log (a partial selftest run) into tools/selftest_last.log:
# the lines of every property that appears in the run replace that property's old lines
import re
pat=re.compile(r'^(CAUGHT|MISSED|QUIET|SKIP|FALSE-ALARM)')
new=[l for l in open('/dev/shm/selftest_run.log') if pat.match(l)]
ids={l.split()[1] for l in new}
old=[l for l in open('/verif/tools/selftest_last.log') if pat.match(l)]
rows=[l for l in old if l.split()[1] not in ids]+new
rows.sort(key=lambda l:(l.split()[1], l.split()[2]))
open('/verif/tools/selftest_last.log','w').writelines(rows)
print(len(rows), 'rows;', sum(l.startswith('CAUGHT') for l in rows),'caught', sum(l.startswith('MISSED') for l in rows),'missed', sum(l.startswith('QUIET') for l in rows),'quiet')
