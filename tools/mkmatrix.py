#!/usr/bin/env python3
"""Rewrites the self-test matrix of DESIGN.md section 8.3 from tools/selftest_last.log."""
import re, collections
rows = collections.OrderedDict()
caught = missed = quiet = 0
for l in open('/verif/tools/selftest_last.log'):
    m = re.match(r'(CAUGHT|MISSED|QUIET|SKIP|FALSE-ALARM)\s+(C\d+)\s+(\S+)(?: \(.*?\))?(?: :: (.*))?', l.strip())
    if not m:
        continue
    st, pid, path, rest = m.groups()
    name = path.replace('mutants/' + pid + '/', '').replace('seeded/' + pid + '/', 'seed ').replace('/patch.diff', '').replace('.patch', '')
    ob = ''
    if st == 'CAUGHT':
        caught += 1
        if rest:
            ob = rest.split(' result=')[0]
            for pre in ('synnax/pkg/distribution/', 'synnax/pkg/service/', 'cesium/internal/', 'aspen/internal/', 'arc/compiler/'):
                ob = ob.replace(pre, '')
            res = re.search(r'result=(\S+)', rest)
            rep = 'replayed' if 'no-failing-input-found' not in rest else 'no input'
            ob = '`%s` (%s, %s)' % (ob, res.group(1) if res else '', rep)
    elif st == 'MISSED':
        missed += 1
    elif st == 'QUIET':
        quiet += 1
    rows.setdefault(pid, []).append((name, st.lower(), ob))
out = ['| property | change | outcome | first failing obligation |', '|----------|--------|---------|--------------------------|']
for pid, rs in rows.items():
    for name, st, ob in rs:
        out.append('| %s | %s | %s | %s |' % (pid, name, st, ob))
p = '/verif/DESIGN.md'
s = open(p).read()
b, e = s.index('<!-- MATRIX-BEGIN -->'), s.index('<!-- MATRIX-END -->')
s = s[:b] + '<!-- MATRIX-BEGIN -->\nLast full run (`tools/selftest_last.log`): %d caught, %d missed, %d quiet.\n\n' % (caught, missed, quiet) + '\n'.join(out) + '\n' + s[e:]
open(p, 'w').write(s)
print(caught, missed, quiet)
