#!/bin/bash
# confirm_seed.sh <ID> <variant> <srcdir> <worktree>
# Confirms a seeded change independently: demo passes on the clean worktree, patch applies and the
# module builds, demo fails with the patch, the touched module's existing tests pass with the patch.
# Prints one RESULT line; leaves the worktree clean.
id=$1; v=$2; src=$3; wt=$4
export GOFLAGS=-mod=mod GOPROXY=off
cd $wt || exit 2
git checkout -q -- . ; git clean -fdq
line=$(grep -m1 -- '->' $src/demo_path.txt)
f=$(echo "$line" | sed 's/ *->.*//' | awk '{print $NF}'); dest=$(echo "$line" | sed 's/.*-> *//' | awk '{print $1}')
cmd=$(grep -m1 'go test' $src/demo_path.txt | sed 's/^ *//; s/.*\(cd [a-z/]* && go test\)/\1/; s/^export[^;]*; *//')
mod=$(echo $dest | cut -d/ -f1); [ "$mod" = x ] && mod=x/go; [ "$mod" = arc ] && mod=arc/go; [ "$mod" = freighter ] && mod=freighter/go
cp $src/$f $wt/$dest
a=$( (eval "$cmd") > /tmp/confirm_${id}${v}_clean.log 2>&1; echo $?)
git apply $src/patch.diff || { echo "RESULT $id$v patch-does-not-apply"; exit 1; }
b=$( (cd $mod && go build ./...) > /tmp/confirm_${id}${v}_build.log 2>&1; echo $?)
c=$( (eval "$cmd") > /tmp/confirm_${id}${v}_patched.log 2>&1; echo $?)
rm -f $wt/$dest
d=$( (cd $mod && go test -vet=off -count=1 -timeout 25m ./...) > /tmp/confirm_${id}${v}_suite.log 2>&1; echo $?)
git checkout -q -- . ; git clean -fdq
echo "RESULT $id$v demo_clean_exit=$a build_exit=$b demo_patched_exit=$c suite_with_patch_exit=$d cmd=[$cmd] mod=$mod"
