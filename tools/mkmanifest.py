#!/usr/bin/env python3
"""Generates /verif/MANIFEST.json from tools/claims.json (per-property texts) and the hook commits in /repo."""
import json, subprocess, os
root = '/verif'
ids = [json.loads(l)['id'] for l in open(f'{root}/properties.jsonl')]
claims = json.load(open(f'{root}/tools/claims.json'))
commits = subprocess.run(['git', '-C', '/repo', 'log', '--format=%H %s'], capture_output=True, text=True).stdout.splitlines()
hook_commits = [c.split()[0] for c in commits if c.split(' ', 1)[1].startswith('verif:')]
TECH = "contract-based deductive verification: contracts on the real Go functions, VCs by typed-AST symbolic execution (govc), discharged by z3/z3-new/cvc5"
checks = []
for pid in ids:
    c = claims.get(pid)
    if not c or not c.get('claimed'):
        continue
    checks.append({
        "property_id": pid,
        "quick_cmd": f"./bin/govc check --property {pid} --tier quick",
        "thorough_cmd": f"./bin/govc check --property {pid} --tier thorough",
        "evidence_file": f"/verif/evidence/{pid}.json",
        "replay_cmd_template": "./bin/govc check --replay {path}",
        "engine": "govc",
        "level_claimed": {"category": "proof", "text": c['text'], "design_ref": c.get('design_ref', f"DESIGN.md section 5 ({pid})")},
        "level_note": c['note'],
        "technique": c.get('technique', TECH),
    })
na = [{"property_id": pid, "reason": claims.get(pid, {}).get('reason', 'check not built yet (engine under construction); see DESIGN.md section 5')}
      for pid in ids if not claims.get(pid, {}).get('claimed')]
m = {
    "version": 1,
    "setup_cmd": "make -C /verif setup",
    "hooks": {"guard": "verif",
              "enable": "Go build tag `verif`: comment-only contract files zz_verif_contracts.go next to the code; govc reads them as text and type-checks the specification expressions against the package with -tags=verif",
              "baseline_off_cmd": "for m in alamos/go arc/go aspen cesium core freighter/go freighter/integration oracle x/go; do (cd /repo/$m && GOFLAGS=-mod=mod go test -json -vet=off -count=1 -timeout 25m ./...); done",
              "source_commits": hook_commits, "add_only": True},
    "engines": [{"name": "govc", "path": "/verif/cmd/govc", "serves_properties": [c['property_id'] for c in checks],
                 "kind_free_text": "contract-based deductive verifier for Go written for this task: loads /repo with go/packages, type-checks //@ contracts with the code, generates verification conditions by symbolic execution of the typed AST with invariant cut points, discharges each named obligation with z3 4.8.12 / z3 5.1.0 / cvc5 1.0"}],
    "checks": checks,
    "not_applicable": na,
    "notes": "VERIF_SEED seeds the solvers. Every command reloads /repo's working tree; nothing is cached. SMT files of the last run are under /verif/smt/<id>/, replay files under /verif/replays/<id>/.",
}
json.dump(m, open(f'{root}/MANIFEST.json', 'w'), indent=1)
print(len(checks), 'checks;', len(na), 'not applicable')
