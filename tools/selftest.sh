#!/bin/bash
# Must-fail self test: every patch under /verif/mutants/<id>/ and /verif/seeded/<id>/*/patch.diff
# is applied to a scratch copy of /repo's working tree (under /dev/shm, removed afterwards), the
# property's quick check must exit 1 (VIOLATION) on the copy, and the patch is reverted.
# usage: tools/selftest.sh [property-id ...]       (SELFTEST_JOBS=n runs n properties in parallel)
cd /verif
ids="$@"; [ -z "$ids" ] && ids=$(ls mutants seeded 2>/dev/null | grep '^C[0-9]' | sort -u)
one() {
  id=$1
  scratch=$(mktemp -d /dev/shm/selftest-$id-XXXX)
  rsync -a --exclude .git --exclude node_modules /repo/ $scratch/
  for p in $(ls mutants/$id/*.patch seeded/$id/*/patch.diff 2>/dev/null); do
    if ! (cd $scratch && git apply --check /verif/$p 2>/dev/null); then echo "SKIP   $id $p (does not apply)"; continue; fi
    (cd $scratch && git apply /verif/$p)
    out=$(GOVC_FAIL_FAST=${GOVC_FAIL_FAST:-1} GOVC_REPO=$scratch ${GOVC_BIN:-./bin/govc} check --property $id --tier quick 2>&1); rc=$?
    (cd $scratch && git apply -R /verif/$p)
    if [ -f "$(dirname $p)/BENIGN" ] || [[ "$p" == *benign* ]]; then
      if [ $rc -eq 0 ]; then echo "QUIET  $id $p (benign edit, check stayed at exit 0)"; else echo "FALSE-ALARM $id $p (exit $rc) :: $(echo "$out" | grep -m1 VIOLATION | cut -c1-160)"; fi
    elif [ $rc -eq 1 ]; then echo "CAUGHT $id $p :: $(echo "$out" | grep -m1 VIOLATION | sed 's/.*obligation=//' | cut -c1-110)"; else echo "MISSED $id $p (exit $rc) :: $(echo "$out" | tail -1 | cut -c1-160)"; fi
  done
  rm -rf $scratch
}
export -f one
echo $ids | tr ' ' '\n' | xargs -P ${SELFTEST_JOBS:-3} -I{} bash -c 'one {}' | tee /dev/shm/selftest_run.log
c=$(grep -c '^CAUGHT\|^QUIET' /dev/shm/selftest_run.log); m=$(grep -c '^MISSED\|^FALSE-ALARM' /dev/shm/selftest_run.log)
echo "selftest: caught=$c missed=$m"
[ "$m" -eq 0 ]
