#!/bin/bash
# Must-fail self test: every patch under /verif/mutants/<id>/ and /verif/seeded/<id>/*/patch.diff
# is applied to /repo, the property's quick check must exit 1 (VIOLATION), and the patch is reverted.
# usage: tools/selftest.sh [property-id ...]
cd /verif
if [ -n "$(git -C /repo status --porcelain --untracked-files=no)" ]; then echo "refusing: /repo has uncommitted changes"; exit 2; fi
ids="$@"; [ -z "$ids" ] && ids=$(ls mutants seeded 2>/dev/null | grep '^C[0-9]' | sort -u)
pass=0; fail=0
for id in $ids; do
  for p in $(ls mutants/$id/*.patch seeded/$id/*/patch.diff 2>/dev/null); do
    if ! git -C /repo apply --check /verif/$p 2>/dev/null; then echo "SKIP   $id $p (does not apply)"; continue; fi
    git -C /repo apply /verif/$p
    out=$(./bin/govc check --property $id --tier quick 2>&1); rc=$?
    git -C /repo checkout -- . 
    if [ -f "$(dirname $p)/BENIGN" ] || [[ "$p" == *benign* ]]; then
      if [ $rc -eq 0 ]; then pass=$((pass+1)); echo "QUIET  $id $p (benign edit, check stayed at exit 0)"; else fail=$((fail+1)); echo "FALSE-ALARM $id $p (exit $rc) :: $(echo "$out" | grep -m1 VIOLATION | cut -c1-160)"; fi
    elif [ $rc -eq 1 ]; then pass=$((pass+1)); echo "CAUGHT $id $p :: $(echo "$out" | grep -m1 VIOLATION | sed 's/.*obligation=//' | cut -c1-110)"; else fail=$((fail+1)); echo "MISSED $id $p (exit $rc) :: $(echo "$out" | tail -1 | cut -c1-160)"; fi
  done
done
echo "selftest: caught=$pass missed=$fail"
[ $fail -eq 0 ]
